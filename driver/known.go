package main

import (
	"encoding/json"
	"os"
	"path/filepath"
	"strings"

	"verif/proto"
)

// known_findings.json (committed, read-only at run time): genuine defects of the tree
// that were recorded rather than repaired. An entry suppresses exactly the violation it
// identifies (class + the calls / frames involved); anything else is still reported.
type knownFinding struct {
	Property    string   `json:"property"`
	Class       string   `json:"class"`
	Calls       []string `json:"calls,omitempty"`  // every listed call, spelled as the JSON array ["Fn","expr",["list",...]], must occur in the minimised run
	Frames      []string `json:"frames,omitempty"` // data_race: both frames (substring match)
	Description string   `json:"description"`
}

type knownFile struct {
	Findings []knownFinding `json:"findings"`
	Fixed    []string       `json:"fixed"`
}

func loadKnown() *knownFile {
	var k knownFile
	p := filepath.Join(verifDir, "known_findings.json")
	if _, err := os.Stat(p); err != nil {
		return &k
	}
	if err := readJSON(p, &k); err != nil {
		fatal("unreadable known_findings.json: %v", err)
	}
	return &k
}

// opKey is the JSON array [fn, expr, list]: an unambiguous spelling of a call for
// known_findings.json.
func opKey(o proto.Op) string {
	b, _ := json.Marshal([]any{o.Fn, o.Expr, o.List})
	return string(b)
}

func (k *knownFile) match(r *proto.Record) *knownFinding {
	for i := range k.Findings {
		f := &k.Findings[i]
		if f.Property != propID || f.Class != r.Class {
			continue
		}
		ok := true
		for _, c := range f.Calls {
			found := false
			for _, t := range r.Run.Tasks {
				for _, o := range t.Ops {
					if opKey(o) == c {
						found = true
					}
				}
			}
			ok = ok && found
		}
		for _, fr := range f.Frames {
			found := false
			for _, v := range r.Violations {
				for _, x := range v.Frames {
					if strings.Contains(x, fr) {
						found = true
					}
				}
			}
			ok = ok && found
		}
		if ok && (len(f.Calls) > 0 || len(f.Frames) > 0) {
			return f
		}
	}
	return nil
}
