package main

import (
	"encoding/json"
	"fmt"
	"os"
	"path/filepath"
	"sort"
	"strconv"
	"sync"
	"time"

	"verif/proto"
)

func cloneRec(r *proto.Record) *proto.Record {
	b, _ := json.Marshal(r)
	var c proto.Record
	json.Unmarshal(b, &c)
	return &c
}

type minimiser struct {
	b        builds
	want     *proto.Record
	tries    int // replays per candidate (probabilistic classes)
	cands    int
	deadline time.Time
	maxCands int
}

// holds: does the candidate still show the same violation (in a fresh process)?
func (m *minimiser) holds(c *proto.Record) (*proto.Record, bool) {
	for i := 0; i < m.tries; i++ {
		res, err := replayOnce(m.b, c, "min")
		if err != nil {
			return nil, false // a candidate that breaks the harness is simply not kept
		}
		if res.Record != nil && sameViolation(m.want, res.Record) {
			if len(res.Record.Prefix) < len(c.Prefix) {
				// the violation showed in an earlier run of the candidate's history: the
				// harness promoted that run; the candidate becomes the promoted record
				c.Run = res.Record.Run
				c.Prefix = res.Record.Prefix
			}
			return res.Record, true
		}
	}
	return nil, false
}

func (m *minimiser) exhausted() bool {
	return time.Now().After(m.deadline) || m.cands >= m.maxCands
}

// firstHolding evaluates candidates in parallel and returns the lowest index that holds.
func (m *minimiser) firstHolding(cands []*proto.Record) (int, *proto.Record) {
	for base := 0; base < len(cands); base += workers {
		if m.exhausted() {
			return -1, nil
		}
		end := base + workers
		if end > len(cands) {
			end = len(cands)
		}
		type r struct {
			ok  bool
			rec *proto.Record
		}
		out := make([]r, end-base)
		var wg sync.WaitGroup
		for i := base; i < end; i++ {
			wg.Add(1)
			go func(i int) {
				defer wg.Done()
				rec, ok := m.holds(cands[i])
				out[i-base] = r{ok, rec}
			}(i)
		}
		wg.Wait()
		m.cands += end - base
		for i, o := range out {
			if o.ok {
				return base + i, o.rec
			}
		}
	}
	return -1, nil
}

func countOps(r *proto.Record) (tasks, ops, events int) {
	for _, t := range r.Run.Tasks {
		if len(t.Ops) > 0 {
			tasks++
		}
		ops += len(t.Ops)
	}
	for _, e := range r.Run.Events {
		if e.Kind == 1 || e.Kind == 4 {
			events++
		}
	}
	return
}

// confirmAndMinimise re-executes the violating run in fresh processes, adds the process
// history if it is needed to reproduce, shrinks the record and replays the final file
// once more. The observation itself is already a violation; what this adds is a small
// replay file.
func confirmAndMinimise(b builds, cfg tierCfg, viol *proto.Record) *proto.Record {
	m := &minimiser{b: b, want: viol, tries: 1, deadline: time.Now().Add(120 * time.Second), maxCands: 3000}
	cur := cloneRec(viol)
	if len(cur.Violations) == 0 {
		return cur
	}
	if cur.Class == "nondeterministic_result" && cur.ReplayMode == "probabilistic" && len(cur.Run.Tasks) == 1 && len(cur.Run.Tasks[0].Ops) == 1 {
		// established by many fresh processes already; one call cannot be shrunk further
		cur.Note += " (one call; fresh processes disagree about its result; replay tries up to 256 processes)"
		return cur
	}
	if cur.Run.Policy.Kind == "free" || len(cur.Run.Tasks) == 0 {
		cur.ReplayMode = "probabilistic"
		cur.Note += " (free-running mode: replay is best-effort)"
		return cur
	}
	if _, o, _ := countOps(cur); o > 20000 {
		// a record this long (a soak pass) is not worth shrinking candidate by candidate:
		// confirm it once and keep it
		if _, ok := m.holds(cur); !ok {
			cur.ReplayMode = "probabilistic"
			cur.Note += " (long soak record; one confirmation replay did not reproduce)"
		} else {
			cur.Note += " (long soak record: confirmed by one replay, not minimised)"
		}
		return cur
	}
	got, ok := m.holds(cur)
	if !ok && cur.Run.Index > 0 && cur.Build != "ref" {
		// needs the process history: regenerate the earlier runs of that process (seeded)
		var prefix []proto.RunRec
		out := filepath.Join(scratch, "prefix.json")
		env := []string{"GOMAXPROCS=1"}
		if o, err := run(scratch, env, 2*time.Minute, b.plain, "records", "-seed", strconv.FormatUint(cur.Seed, 10), "-proc", strconv.Itoa(cur.Proc),
			"-clock="+strconv.FormatBool(usesClock(b)), "-from", "0", "-runs", strconv.Itoa(cur.Run.Index), "-corpus", filepath.Join(scratch, "corpus.json"),
			"-expected", filepath.Join(scratch, "expected.json"), "-maxstep", strconv.FormatInt(cfg.maxStep, 10), "-out", out); err != nil {
			fatal("records: %v\n%s", err, o)
		}
		if err := readJSON(out, &prefix); err != nil {
			fatal("%v", err)
		}
		cur.Prefix = prefix
		got, ok = m.holds(cur)
	}
	probabilistic := false
	if ok {
		// determinism probe: the same file must give the same observation every time
		for i := 0; i < 3 && !probabilistic && !m.exhausted(); i++ {
			g2, ok2 := m.holds(cur)
			if !ok2 || !sameObserved(got, g2) {
				probabilistic = true
			}
		}
	} else {
		// not reproducible on the first attempt: try more often; whatever happens the
		// observation stands
		probabilistic = true
		m.tries = 8
		for i := 0; i < 32 && !ok; i++ {
			got, ok = m.holds(cur)
		}
		if !ok {
			cur.ReplayMode = "probabilistic"
			cur.Note += " (observed once; not reproduced in 256 replays - depends on a source outside the simulator's seams, see DESIGN 3.3)"
			return cur
		}
	}
	if probabilistic {
		// the outcome of one and the same replay file varies between processes: the result
		// depends on a source the simulator does not own (map iteration order, race-build
		// sync.Pool drops, ...). Class nondeterministic_result; every candidate gets 16 tries.
		m.tries = 16
		if cur.Class == "data_race" {
			// the usual reason: the detector missed it in one of the probe processes
			m.tries = 3
		}
		cur.ReplayMode = "probabilistic"
		viol = cloneRec(viol)
		viol.ReplayMode = "probabilistic"
		logf("the same replay file gives varying observations: treating as nondeterministic (replay is probabilistic)")
	}
	// shrink the process history: first none at all, then drop halves, quarters, ... single runs
	if len(cur.Prefix) > 0 {
		c := cloneRec(cur)
		c.Prefix = nil
		if rec, ok := m.holds(c); ok {
			cur, got = c, rec
		}
		m.cands++
		for chunk := (len(cur.Prefix) + 1) / 2; chunk >= 1 && !m.exhausted() && len(cur.Prefix) > 0; {
			var cands []*proto.Record
			for s := 0; s < len(cur.Prefix); s += chunk {
				c := cloneRec(cur)
				e := s + chunk
				if e > len(c.Prefix) {
					e = len(c.Prefix)
				}
				c.Prefix = append(c.Prefix[:s:s], c.Prefix[e:]...)
				cands = append(cands, c)
			}
			if i, rec := m.firstHolding(cands); i >= 0 {
				cur = cands[i]
				got = rec
				if chunk > len(cur.Prefix) {
					chunk = len(cur.Prefix)
				}
				continue
			}
			if chunk == 1 {
				break
			}
			chunk = (chunk + 1) / 2
		}
	}
	dbg := os.Getenv("VERIF_DEBUG_MIN") != ""
	if cur.Build != "ref" && cur.Run.Scripted && (!probabilistic || cur.Class == "data_race") {
		cur = m.cutCrowd(cur)
	}
	for round := 0; round < 3 && !m.exhausted(); round++ {
		t0, o0, e0 := countOps(cur)
		if dbg {
			logf("minimiser round %d: %d tasks / %d ops / %d events, prefix %d, %d candidates so far", round, t0, o0, e0, len(cur.Prefix), m.cands)
		}
		// 1. drop whole tasks (keep the slot, empty the ops: indices in events stay valid)
		for t := len(cur.Run.Tasks) - 1; t >= 0 && !m.exhausted(); t-- {
			if len(cur.Run.Tasks[t].Ops) == 0 {
				continue
			}
			c := cloneRec(cur)
			c.Run.Tasks[t].Ops = nil
			if _, ok := m.holds(c); ok {
				cur = c
			}
			m.cands++
		}
		// 2. drop operations: per task, delta debugging with chunks of decreasing size
		for t := range cur.Run.Tasks {
			for chunk := (len(cur.Run.Tasks[t].Ops) + 1) / 2; chunk >= 1 && !m.exhausted() && len(cur.Run.Tasks[t].Ops) > 0; {
				var cands []*proto.Record
				n := len(cur.Run.Tasks[t].Ops)
				for s0 := n; s0 > 0; s0 -= chunk { // from the end
					lo := s0 - chunk
					if lo < 0 {
						lo = 0
					}
					c := cloneRec(cur)
					ops := c.Run.Tasks[t].Ops
					c.Run.Tasks[t].Ops = append(ops[:lo:lo], ops[s0:]...)
					cands = append(cands, c)
				}
				if i, _ := m.firstHolding(cands); i >= 0 {
					cur = cands[i]
					if chunk > len(cur.Run.Tasks[t].Ops) {
						chunk = len(cur.Run.Tasks[t].Ops)
					}
					if chunk < 1 {
						break
					}
					continue
				}
				if chunk == 1 {
					break
				}
				chunk = (chunk + 1) / 2
			}
		}
		// 3. simplify the schedule: no preemption at all, then drop single events
		if cur.Run.Scripted && len(cur.Run.Events) > 0 {
			c := cloneRec(cur)
			c.Run.Events = nil
			c.Run.First = 0
			if _, ok := m.holds(c); ok {
				cur = c
			}
			m.cands++
			if cur.Build != "ref" && !probabilistic && len(cur.Run.Events) > 60 && !m.exhausted() {
				// thousands of switches (fine time slices) are hopeless to shrink one by one:
				// look for a simpler schedule of the same workload first
				if found := m.search(cloneRec(cur)); found != nil && len(found.Run.Events) < len(cur.Run.Events) {
					cur = found
				}
			}
			cur = m.shrinkEvents(cur)
		}
		if t1, o1, e1 := countOps(cur); t1 == t0 && o1 == o0 && e1 == e0 {
			break
		}
	}
	// 3b. re-search: with fewer tasks the recorded schedule usually no longer fits; look
	// for a fresh schedule of the reduced workload (8 processes x 25 seeded schedules)
	if cur.Build != "ref" && !probabilistic {
		for changed := true; changed && !m.exhausted(); {
			changed = false
			nt, _, _ := countOps(cur)
			if nt <= 2 {
				break
			}
			for t := len(cur.Run.Tasks) - 1; t >= 0 && !changed && !m.exhausted(); t-- {
				if len(cur.Run.Tasks[t].Ops) == 0 {
					continue
				}
				c := cloneRec(cur)
				c.Run.Tasks[t].Ops = nil
				if found := m.search(c); found != nil {
					cur = m.shrinkEvents(found)
					changed = true
				}
			}
		}
	}
	// 4. drop environment events attached to operations
	for t := range cur.Run.Tasks {
		for k := range cur.Run.Tasks[t].Ops {
			op := cur.Run.Tasks[t].Ops[k]
			if m.exhausted() || !(op.ScribbleArg || op.ScribbleRes || op.Spare > 0 || op.Share >= 0) {
				continue
			}
			try := func(f func(o *proto.Op)) {
				c := cloneRec(cur)
				f(&c.Run.Tasks[t].Ops[k])
				if _, ok := m.holds(c); ok {
					cur = c
				}
				m.cands++
			}
			if op.ScribbleArg {
				try(func(o *proto.Op) { o.ScribbleArg = false })
			}
			if op.ScribbleRes {
				try(func(o *proto.Op) { o.ScribbleRes = false })
			}
		}
	}
	// 4b. compact: remove empty task slots, renumber tasks in the events, forget the
	// seeded policy parameters of a scripted run (kept only if the result still holds)
	if c := compact(cur); c != nil {
		if _, ok := m.holds(c); ok {
			cur = c
		}
		m.cands++
	}
	// 5. final confirmation of the minimised record in a fresh process
	final, ok := m.holds(cur)
	if !ok && !probabilistic {
		// the determinism probe passed but the minimised file does not reproduce at once:
		// the observation is not a function of the file alone after all (with the race
		// detector: which of many accesses to one hot word are still in its shadow cells).
		// Keep the minimised record if it reproduces within 16 fresh processes.
		m.tries = 16
		if final, ok = m.holds(cur); ok {
			probabilistic = true
			cur.ReplayMode = "probabilistic"
			logf("the minimised file does not reproduce in every process: replay is probabilistic")
		}
	}
	if !ok {
		// fall back to the unminimised record
		cur = cloneRec(viol)
		cur.ReplayMode = "probabilistic"
		cur.Note += " (minimisation result did not re-confirm; unminimised record kept)"
		if probabilistic {
			cur.Class = "nondeterministic_result"
		}
		return cur
	}
	cur.Violations = final.Violations
	cur.Class = final.Violations[0].Class
	for _, v := range final.Violations {
		if v.Class == viol.Class {
			cur.Class = v.Class
		}
	}
	if probabilistic && cur.Class == "result_mismatch" {
		cur.Class = "nondeterministic_result"
	}
	t, o, e := countOps(cur)
	t0, o0, e0 := countOps(viol)
	cur.Note = fmt.Sprintf("minimised from %d tasks / %d ops / %d schedule+fault events (+%d prefix runs) to %d / %d / %d (+%d) with %d candidate replays; final file re-confirmed in a fresh process",
		t0, o0, e0, viol.Run.Index, t, o, e, len(cur.Prefix), m.cands)
	logf("%s", cur.Note)
	return cur
}

func compact(r *proto.Record) *proto.Record {
	c := cloneRec(r)
	remap := map[int16]int16{}
	var tasks []proto.TaskRec
	for i, t := range c.Run.Tasks {
		if len(t.Ops) > 0 {
			remap[int16(i)] = int16(len(tasks))
			tasks = append(tasks, t)
		}
	}
	if len(tasks) == len(c.Run.Tasks) && !c.Run.Scripted {
		return nil
	}
	if len(tasks) == 0 {
		return nil
	}
	c.Run.Tasks = tasks
	var ev []proto.Event
	for _, e := range c.Run.Events {
		nt, ok := remap[e.Task]
		if !ok {
			continue
		}
		e.Task = nt
		if nn, ok := remap[e.Next]; ok {
			e.Next = nn
		} else {
			e.Next = -1
		}
		ev = append(ev, e)
	}
	c.Run.Events = ev
	if f, ok := remap[int16(c.Run.First)]; ok {
		c.Run.First = int(f)
	} else {
		c.Run.First = 0
	}
	if c.Run.Scripted {
		// the seed also drives the program's own choices (select, GOMAXPROCS knob): keep it
		c.Run.Policy = proto.PolicyRec{Kind: "script (was " + c.Run.Policy.Kind + ")", Seed: c.Run.Policy.Seed}
	}
	return c
}

// sameObserved: two replays of the same file made the same observations.
func sameObserved(a, b *proto.Record) bool {
	if a == nil || b == nil || len(a.Violations) != len(b.Violations) {
		return false
	}
	for i := range a.Violations {
		x, y := a.Violations[i], b.Violations[i]
		if x.Class != y.Class || x.Op != y.Op || x.Task != y.Task || x.Observed != y.Observed {
			return false
		}
	}
	return true
}

// renderTrace turns the minimised run into readable lines: who calls what, where each
// task is preempted (file:line of the yield site) and which fault events fire.
func renderTrace(b builds, r *proto.Record) []string {
	site := map[int]string{}
	for _, s := range b.rep.Sites {
		site[s.ID] = s.File + " (" + s.Func + ")"
	}
	opName := map[int32]string{}
	var out []string
	if len(r.Prefix) > 0 {
		out = append(out, fmt.Sprintf("history: %d earlier simulated run(s) of the same process are executed first (seeded policies)", len(r.Prefix)))
	}
	for t, tr := range r.Run.Tasks {
		for _, op := range tr.Ops {
			arg := ""
			switch {
			case op.NilList:
				arg = "nil"
			case op.List != nil:
				arg = fmt.Sprintf("%q", op.List)
			}
			d := fmt.Sprintf("%s(%q %s)", op.Fn, op.Expr, arg)
			opName[int32(op.ID)] = d
			extra := ""
			if op.Share >= 0 {
				extra += fmt.Sprintf(" [argument slice shared, group %d]", op.Share)
			}
			if op.ReuseBuf {
				extra += " [caller refills its previous buffer]"
			}
			if op.ScribbleArg {
				extra += " [caller overwrites its slice afterwards]"
			}
			if op.ScribbleRes {
				extra += " [caller overwrites the returned slice afterwards]"
			}
			out = append(out, fmt.Sprintf("task %d, op %d: %s expects %s%s", t, op.ID, d, op.Expect, extra))
		}
	}
	if !r.Run.Scripted {
		out = append(out, fmt.Sprintf("schedule: seeded policy %q (seed %d)", r.Run.Policy.Kind, r.Run.Policy.Seed))
		return out
	}
	if len(r.Run.Events) == 0 {
		out = append(out, "schedule: no preemption; tasks run one after the other starting with task "+strconv.Itoa(r.Run.First))
	}
	for _, e := range r.Run.Events {
		where := ""
		if e.Op >= 0 {
			where = fmt.Sprintf(" in op %d after %d yields", e.Op, e.OpStep)
			if e.OpStep < 0 {
				where = fmt.Sprintf(" after finishing op %d", e.Op)
			}
		}
		at := ""
		if s, ok := site[int(e.Site)]; ok {
			at = " at " + s
		}
		switch e.Kind {
		case 1:
			out = append(out, fmt.Sprintf("task %d%s%s: preempted -> task %d", e.Task, where, at, e.Next))
		case 2:
			out = append(out, fmt.Sprintf("task %d%s: blocked on a library lock/once/channel -> task %d", e.Task, where, e.Next))
		case 3:
			out = append(out, fmt.Sprintf("task %d finished -> task %d", e.Task, e.Next))
		case 4:
			out = append(out, fmt.Sprintf("task %d%s%s: fault gc (runtime.GC x2)", e.Task, where, at))
		case 6:
			out = append(out, fmt.Sprintf("start with task %d", e.Task))
		case 7:
			out = append(out, fmt.Sprintf("task %d%s%s: fault clock_jump %s", e.Task, where, at, time.Duration(e.Arg)))
		}
	}
	return out
}

// search looks for a schedule of c's workload that shows the wanted violation; the
// result is confirmed by an ordinary replay in a fresh process.
func (m *minimiser) search(c *proto.Record) *proto.Record {
	const procs, each = 8, 25
	out := make([]*proto.Record, procs)
	var wg sync.WaitGroup
	for k := 0; k < procs; k++ {
		wg.Add(1)
		go func(k int) {
			defer wg.Done()
			res, err := searchOnce(m.b, c, each, k*each)
			if err == nil && res.Record != nil && sameViolation(m.want, res.Record) {
				out[k] = res.Record
			}
		}(k)
	}
	wg.Wait()
	m.cands += procs
	// prefer the schedule with the fewest events
	sort.SliceStable(out, func(i, j int) bool {
		if out[i] == nil || out[j] == nil {
			return out[j] == nil && out[i] != nil
		}
		return len(out[i].Run.Events) < len(out[j].Run.Events)
	})
	for _, r := range out {
		if r == nil {
			continue
		}
		r.Violations = nil
		cand := cloneRec(r)
		cand.Violations = m.want.Violations
		if rec, ok := m.holds(cand); ok {
			cand.Violations = rec.Violations
			return cand
		}
	}
	return nil
}

// cutCrowd: a run with many caller tasks is cut down in chunks before anything else.
func (m *minimiser) cutCrowd(cur *proto.Record) *proto.Record {
	// crowds first: drop half, a quarter, ... of the tasks at once and look for a fresh
	// schedule of what is left (a defect that needs seventeen callers is never found
	// by removing one task at a time from sixty under the recorded schedule)
	liveTasks := func(r *proto.Record) []int {
		var idx []int
		for t := range r.Run.Tasks {
			if len(r.Run.Tasks[t].Ops) > 0 {
				idx = append(idx, t)
			}
		}
		return idx
	}
	searches := 0
	if n := len(liveTasks(cur)); n > 8 {
		m.deadline = m.deadline.Add(120 * time.Second)
		for chunk := (n + 1) / 2; chunk >= 1 && !m.exhausted(); {
			idx := liveTasks(cur)
			if len(idx) <= 4 {
				break
			}
			found := false
			var cands []*proto.Record
			for s0 := 0; s0 < len(idx); s0 += chunk {
				e := s0 + chunk
				if e > len(idx) {
					e = len(idx)
				}
				c := cloneRec(cur)
				for _, t := range idx[s0:e] {
					c.Run.Tasks[t].Ops = nil
				}
				cands = append(cands, c)
			}
			// under the recorded schedule first (cheap, all candidates at once) ...
			if i, _ := m.firstHolding(cands); i >= 0 {
				cur = cands[i]
				found = true
			}
			// ... then with a fresh schedule
			for i := 0; i < len(cands) && !found && !m.exhausted() && searches < 48; i++ {
				searches++
				if f := m.search(cands[i]); f != nil {
					cur = f
					found = true
				}
			}
			if found {
				if l := len(liveTasks(cur)); chunk > (l+1)/2 {
					chunk = (l + 1) / 2
				}
				continue
			}
			if chunk == 1 {
				break
			}
			chunk = (chunk + 1) / 2
		}
		cur = m.shrinkEvents(cur)
	}
	return cur
}

// shrinkEvents: delta debugging over the schedule / fault event list.
func (m *minimiser) shrinkEvents(cur *proto.Record) *proto.Record {
	if !cur.Run.Scripted {
		return cur
	}
	for chunk := (len(cur.Run.Events) + 1) / 2; chunk >= 1 && !m.exhausted() && len(cur.Run.Events) > 0; {
		var cands []*proto.Record
		for s := 0; s < len(cur.Run.Events); s += chunk {
			c := cloneRec(cur)
			e := s + chunk
			if e > len(c.Run.Events) {
				e = len(c.Run.Events)
			}
			c.Run.Events = append(c.Run.Events[:s:s], c.Run.Events[e:]...)
			cands = append(cands, c)
		}
		if i, _ := m.firstHolding(cands); i >= 0 {
			cur = cands[i]
			if chunk > len(cur.Run.Events) {
				chunk = len(cur.Run.Events)
			}
			continue
		}
		if chunk == 1 {
			break
		}
		chunk = (chunk + 1) / 2
	}
	return cur
}
