package main

import (
	"crypto/sha256"
	"encoding/hex"
	"encoding/json"
	"fmt"
	"os"
	"path/filepath"
	"sort"
	"strconv"
	"strings"
	"sync"
	"time"

	"verif/proto"
)

type oracleInfo struct {
	corpus       proto.Corpus
	expected     proto.Expected
	batch        int // calls executed in batch passes
	iso          int // calls executed alone in a fresh process
	dropped      int // calls dropped for exceeding the step bound
	excluded     map[int]string
	soak         int // calls made in the one long-lived soak process
	siteBits     []uint8
	crossProcess bool // the violation is a disagreement between fresh processes (already established by 24 of them)
	unmanaged    int  // goroutines the library started outside of calls (package init)
	viol         *proto.Record
}

var degradedMode bool
var buildsFlag = "race,plain"

func oracleRun(bin string, wall time.Duration, corpusPath string, order string, ids []int) proto.OracleOut {
	args := []string{"oracle", "-corpus", corpusPath, "-order", order, "-seed", strconv.FormatUint(seed, 10)}
	if degradedMode {
		args = append(args, "-free")
	}
	if order == "soak" {
		args = append(args, "-soak", strconv.Itoa(soakCallsFor()), "-budget-ms", strconv.FormatInt(wall.Milliseconds()/3, 10))
	}
	if ids != nil {
		s := make([]string, len(ids))
		for i, id := range ids {
			s[i] = strconv.Itoa(id)
		}
		args = append(args, "-ids", strings.Join(s, ","))
	}
	n := procSeq()
	out := filepath.Join(scratch, "p", fmt.Sprintf("oracle.%d.json", n))
	capf := filepath.Join(scratch, "p", fmt.Sprintf("ocap.%d", n))
	progf := filepath.Join(scratch, "p", fmt.Sprintf("oprog.%d", n))
	os.MkdirAll(filepath.Join(scratch, "p"), 0o755)
	args = append(args, "-out", out, "-capture", capf, "-progress", progf)
	env := append(os.Environ(), "GOMAXPROCS=1", "GODEBUG=", "GOTRACEBACK=single")
	o, err := run(filepath.Join(scratch, "p"), env, wall, bin, args...)
	defer func() {
		if !keep {
			os.Remove(out)
			os.Remove(capf)
			os.Remove(progf)
		}
	}()
	if err != nil {
		cb, _ := os.ReadFile(capf)
		captured := string(cb)
		if len(captured) > 8000 {
			captured = captured[:4000] + "\n[...]\n" + captured[len(captured)-4000:]
		}
		if c := crashLine(captured); c != "" {
			// the library killed the oracle process: report where (progress file)
			var oo proto.OracleOut
			oo.Order, oo.Hung = order, -1
			pb, _ := os.ReadFile(progf)
			lines := strings.Split(strings.TrimSpace(string(pb)), "\n")
			if len(lines) >= 2 && json.Unmarshal([]byte(lines[0]), &oo.IDs) == nil {
				at, _ := strconv.Atoi(lines[len(lines)-1])
				oo.Crash, oo.CrashAt = c+"\n"+tail(captured, 1500), at
				oo.Outcomes = make([]string, len(oo.IDs))
				return oo
			}
		}
		fatal("oracle process failed: %v\n%s\n%s", err, o, tail(captured, 2000))
	}
	var oo proto.OracleOut
	if err := readJSON(out, &oo); err != nil {
		fatal("oracle output: %v", err)
	}
	return oo
}

var pseq int
var pseqMu sync.Mutex

func procSeq() int {
	pseqMu.Lock()
	defer pseqMu.Unlock()
	pseq++
	return pseq
}

func tail(s string, n int) string {
	if len(s) > n {
		return s[len(s)-n:]
	}
	return s
}

// seqRecord turns "these calls, in this order, on one goroutine" into a replay record.
func seqRecord(c *proto.Corpus, ids []int, upto int, expect []string, class, build string) *proto.Record {
	var tr proto.TaskRec
	for i := 0; i <= upto && i < len(ids); i++ {
		call := c.Calls[ids[i]]
		tr.Ops = append(tr.Ops, proto.Op{ID: i, Call: call.ID, Fn: call.Fn, Expr: call.Expr, List: call.List, NilList: call.NilList,
			Share: -1, Spare: 2, Fam: call.Fam, Expect: expect[call.ID]})
	}
	return &proto.Record{Property: propID, Class: class, Build: build, Seed: seed, ReplayMode: "exact",
		Run: proto.RunRec{Cold: true, Tasks: []proto.TaskRec{tr}, Policy: proto.PolicyRec{Kind: "seq"}, First: 0, Scripted: false}}
}

// buildOracle computes the sequential reference (DESIGN §3.8) and checks that it is
// order- and history-independent.
func buildOracle(b builds, cfg tierCfg, pre map[int]string) oracleInfo {
	var oi oracleInfo
	corpusPath := filepath.Join(scratch, "corpus.json")
	env := append(os.Environ(), "GOMAXPROCS=1")
	if out, err := run(scratch, env, 2*time.Minute, b.ref, "corpus", "-seed", strconv.FormatUint(seed, 10), "-size", strconv.Itoa(cfg.corpusSize), "-out", corpusPath); err != nil {
		fatal("corpus generation failed: %v\n%s", err, out)
	}
	if err := readJSON(corpusPath, &oi.corpus); err != nil {
		fatal("%v", err)
	}
	n := len(oi.corpus.Calls)
	if !degradedMode {
		// probe: does the library start goroutines outside of calls (package init)? They
		// cannot be simulated tasks, and would run simulator wrappers as if they were the
		// current task: everything, including the instrumented pass, must then run free
		probe := oracleRun(b.plain, cfg.procWall, corpusPath, "canonical", []int{0})
		if probe.Unmanaged > 0 {
			degradedMode = true
			oi.unmanaged = probe.Unmanaged
		}
	}
	callStr := func(id int) string {
		c := oi.corpus.Calls[id]
		return fmt.Sprintf("%s(%q, %q)", c.Fn, c.Expr, c.List)
	}

	// ---- isolated executions: one call alone in a fresh process ----
	var isoMu sync.Mutex
	iso := map[int]proto.OracleOut{}
	excluded := map[int]string{} // calls that crash or hang even alone (input-only, outside C13), or that a known finding names
	for id, why := range pre {
		excluded[id] = why
	}
	sem := make(chan struct{}, workers)
	isoOf := func(ids []int) {
		var iw sync.WaitGroup
		for _, id := range ids {
			isoMu.Lock()
			_, have := iso[id]
			isoMu.Unlock()
			if have {
				continue
			}
			iw.Add(1)
			sem <- struct{}{}
			go func(id int) {
				defer iw.Done()
				defer func() { <-sem }()
				o := oracleRun(b.ref, cfg.procWall, corpusPath, "canonical", []int{id})
				isoMu.Lock()
				iso[id] = o
				if o.Crash != "" {
					excluded[id] = "kills the process even alone: " + firstLine(o.Crash)
				} else if o.Hung >= 0 || len(o.Outcomes) == 0 {
					excluded[id] = "does not return even alone"
				}
				isoMu.Unlock()
			}(id)
		}
		iw.Wait()
	}
	instCrashSeen := false
	instAlone := func(ids []int) {
		var iw sync.WaitGroup
		for _, id := range ids {
			isoMu.Lock()
			_, ex := excluded[id]
			isoMu.Unlock()
			if ex {
				continue
			}
			iw.Add(1)
			sem <- struct{}{}
			go func(id int) {
				defer iw.Done()
				defer func() { <-sem }()
				for k := 0; k < 2; k++ {
					if o := oracleRun(b.plain, cfg.procWall, corpusPath, "canonical", []int{id}); o.Crash == "" {
						return
					}
				}
				isoMu.Lock()
				excluded[id] = "kills the process even alone when the library is told it has several processors (instrumented build)"
				isoMu.Unlock()
			}(id)
		}
		iw.Wait()
	}
	all := make([]int, n)
	for i := range all {
		all[i] = i
	}
	var sample []int
	if cfg.isoSample < 0 || cfg.isoSample >= n {
		sample = all
	} else {
		perm := append([]int{}, all...)
		s := seed*0x9e3779b97f4a7c15 + 77
		for i := n - 1; i > 0; i-- {
			s = s*6364136223846793005 + 1442695040888963407
			j := int((s >> 33) % uint64(i+1))
			perm[i], perm[j] = perm[j], perm[i]
		}
		sample = perm[:cfg.isoSample]
		sort.Ints(sample)
	}
	isoOf(sample)

	// ---- batch passes over every call that is not excluded ----
	var canon, rev, shuf, inst, soak proto.OracleOut
	for attempt := 0; ; attempt++ {
		var ids []int
		for _, id := range all {
			if _, ex := excluded[id]; !ex {
				ids = append(ids, id)
			}
		}
		if len(ids) == 0 {
			fatal("every corpus call crashes or hangs when made alone")
		}
		var wg sync.WaitGroup
		wg.Add(5)
		go func() { defer wg.Done(); soak = oracleRun(b.ref, cfg.procWall, corpusPath, "soak", ids) }()
		go func() { defer wg.Done(); canon = oracleRun(b.ref, 4*cfg.procWall, corpusPath, "canonical", ids) }()
		go func() { defer wg.Done(); rev = oracleRun(b.ref, 4*cfg.procWall, corpusPath, "reverse", ids) }()
		go func() { defer wg.Done(); shuf = oracleRun(b.ref, 4*cfg.procWall, corpusPath, "shuffle", ids) }()
		go func() { defer wg.Done(); inst = oracleRun(b.plain, 4*cfg.procWall, corpusPath, "canonical", ids) }()
		wg.Wait()
		again := false
		for oi2, o := range []proto.OracleOut{canon, rev, shuf, inst, soak} {
			at := -1
			if o.Crash != "" {
				at = o.CrashAt
			} else if o.Hung >= 0 {
				at = o.Hung
			}
			if at >= 0 && at < len(o.IDs) {
				x := o.IDs[at]
				isoOf([]int{x})
				if _, ex := excluded[x]; !ex && oi2 == 3 && o.Crash != "" {
					// the instrumented pass died where the reference returns: the library may
					// take another path when it is told it has several processors (the
					// reference processes really have one). Input-only as well if the call
					// kills a fresh instrumented process every time it is made alone.
					instAlone([]int{x})
					instCrashSeen = true
				}
				if _, ex := excluded[x]; ex {
					again = true
				}
			}
		}
		if !again || attempt >= 3 {
			break
		}
		if instCrashSeen {
			instAlone(all)
		}
		// (the full passes get four times the wall of a simulator process: a tree whose calls
		// are slow is decided slowly rather than not at all; the soak pass has its own budget)
		// some call dies even alone: find all of them at once, drop them, run the passes again
		isoOf(all)
	}
	oi.batch = len(canon.IDs) + len(rev.IDs) + len(shuf.IDs) + len(soak.IDs)
	oi.soak = len(soak.IDs)
	oi.excluded = excluded
	if len(excluded) > 0 {
		logf("%d corpus call(s) crash or hang even when made alone in a fresh process (input-only, not a C13 matter): removed from the corpus", len(excluded))
	}

	// ---- reference table: the isolated outcome where available, else canonical ----
	ref := make([]string, n)
	rebuildRef := func() {
		for i, id := range canon.IDs {
			if i < len(canon.Outcomes) {
				ref[id] = canon.Outcomes[i]
			}
		}
		for id, o := range iso {
			if _, ex := excluded[id]; !ex && len(o.Outcomes) > 0 {
				ref[id] = o.Outcomes[0]
			}
		}
		for id := range excluded {
			ref[id] = ""
		}
	}
	rebuildRef()

	// every pass must agree with the reference: otherwise the result depends on history
	check := func(o proto.OracleOut, build string) *proto.Record {
		if o.Crash != "" {
			cid := o.IDs[o.CrashAt]
			r := seqRecord(&oi.corpus, o.IDs, o.CrashAt, ref, "crash", build)
			r.Violations = []proto.Violation{{Class: "crash", Task: 0, Op: o.CrashAt, Fn: oi.corpus.Calls[cid].Fn,
				Detail:  fmt.Sprintf("sequential pass (%s order): the process died in %s as call #%d (the same call alone in a fresh process returns): %s", o.Order, callStr(cid), o.CrashAt, firstLine(o.Crash)),
				RaceLog: o.Crash}}
			return r
		}
		if o.Hung >= 0 {
			hid := o.IDs[o.Hung]
			r := seqRecord(&oi.corpus, o.IDs, o.Hung, ref, "deadlock", "plain")
			r.Violations = []proto.Violation{{Class: "deadlock", Task: 0, Op: o.Hung, Fn: oi.corpus.Calls[hid].Fn,
				Detail: fmt.Sprintf("sequential pass (%s order): %s as call #%d never returned (it returns when made alone)", o.Order, callStr(hid), o.Hung)}}
			return r
		}
		if o.Output != 0 {
			r := seqRecord(&oi.corpus, o.IDs, len(o.IDs)-1, ref, "output_written", build)
			r.Violations = []proto.Violation{{Class: "output_written", Detail: fmt.Sprintf("%d bytes on stdout/stderr during a sequential pass (%s order)", o.Output, o.Order)}}
			return r
		}
		if len(o.ArgMut) > 0 {
			r := seqRecord(&oi.corpus, o.IDs, len(o.IDs)-1, ref, "arg_mutated", build)
			r.Violations = []proto.Violation{{Class: "arg_mutated", Detail: o.ArgMut[0]}}
			return r
		}
		for i, id := range o.IDs {
			if i < len(o.Steps) && o.Steps[i] >= proto.StepsBeyondSimulator {
				continue // beyond the simulator's tables in the instrumented pass: not an observation
			}
			if o.Outcomes[i] != ref[id] {
				r := seqRecord(&oi.corpus, o.IDs, i, ref, "result_mismatch", build)
				r.Violations = []proto.Violation{{Class: "result_mismatch", Task: 0, Op: i, Fn: oi.corpus.Calls[id].Fn,
					Detail:   fmt.Sprintf("sequential pass (%s order): %s as call #%d differs from the same call made alone in a fresh process", o.Order, callStr(id), i),
					Expected: ref[id], Observed: o.Outcomes[i]}}
				return r
			}
		}
		return nil
	}
	firstViol := func() *proto.Record {
		// a call that misbehaves even alone (output, argument mutation)
		var ids []int
		for id := range iso {
			ids = append(ids, id)
		}
		sort.Ints(ids)
		for _, id := range ids {
			if _, ex := excluded[id]; ex {
				continue
			}
			if o := iso[id]; o.Output != 0 || len(o.ArgMut) > 0 {
				if r := check(o, "ref"); r != nil {
					return r
				}
			}
		}
		for _, o := range []proto.OracleOut{canon, rev, shuf, soak} {
			if r := check(o, "ref"); r != nil {
				return r
			}
		}
		return nil
	}
	if r := firstViol(); r != nil {
		if (r.Class == "result_mismatch" || r.Class == "crash" || r.Class == "deadlock") && len(iso) < n {
			// the passes disagree: make the reference the isolated outcome of EVERY call so
			// that the record names the call whose result depends on history and carries
			// history-free expectations
			isoOf(all)
			rebuildRef()
			if r2 := firstViol(); r2 != nil {
				r = r2
			}
		}
		oi.viol = r
	}
	if oi.viol == nil {
		// the instrumented build must reproduce the reference exactly; if the reference is
		// itself consistent, a difference here can only be history dependence that shows
		// in that build only (decided by a replay) or an instrumenter bug
		if r := check(inst, "plain"); r != nil {
			// (a) the call alone, exactly as the instrumented pass ran it (its own one-task
			// run): reproduces when the result depends on the schedule of goroutines the
			// library starts itself; (b) the whole pass prefix: history that shows only in
			// the instrumented build
			var cands []*proto.Record
			if len(r.Run.Tasks) == 1 && len(r.Run.Tasks[0].Ops) > 1 {
				one := cloneRec(r)
				ops := one.Run.Tasks[0].Ops
				one.Run.Tasks[0].Ops = ops[len(ops)-1:]
				cands = append(cands, one)
			}
			cands = append(cands, r)
			for _, c := range cands {
				res, err := replayOnce(b, c, "instcheck")
				if err != nil {
					logf("replay of the instrumented-pass disagreement failed: %v", err)
				}
				if err == nil && res.Record != nil {
					c.Violations = res.Record.Violations
					if len(b.rep.Rewrites) > 0 {
						c.Note = "the uninstrumented library (goroutines scheduled by the Go runtime) and the simulated schedule give different results for the same single call"
					}
					oi.viol = c
					break
				}
			}
			if oi.viol == nil && len(r.Run.Tasks) == 1 && len(r.Run.Tasks[0].Ops) > 0 {
				// last possibility before blaming the instrumenter: the result differs from
				// PROCESS to process (something computed once per process from map order,
				// addresses, ...). Make the same call alone in 24 fresh uninstrumented processes.
				ops := r.Run.Tasks[0].Ops
				cid := ops[len(ops)-1].Call
				outs := make([]string, 24)
				var pw sync.WaitGroup
				for k := range outs {
					pw.Add(1)
					sem <- struct{}{}
					go func(k int) {
						defer pw.Done()
						defer func() { <-sem }()
						o := oracleRun(b.ref, cfg.procWall, corpusPath, "canonical", []int{cid})
						if len(o.Outcomes) > 0 {
							outs[k] = o.Outcomes[0]
						}
					}(k)
				}
				pw.Wait()
				distinct := map[string]int{}
				for _, o := range outs {
					distinct[o]++
				}
				if len(distinct) > 1 {
					one := seqRecord(&oi.corpus, []int{cid}, 0, ref, "nondeterministic_result", "ref")
					one.ReplayMode = "probabilistic"
					one.Violations = []proto.Violation{{Class: "nondeterministic_result", Task: 0, Op: 0, Fn: oi.corpus.Calls[cid].Fn,
						Detail:   fmt.Sprintf("%s made alone in 24 fresh processes gave %d different results: the result depends on the process, not only on the arguments", callStr(cid), len(distinct)),
						Expected: ref[cid], Observed: fmt.Sprint(distinct)}}
					oi.viol = one
					oi.crossProcess = true
				}
			}
			if oi.viol == nil {
				fatal("instrumented build disagrees with the uninstrumented reference (instrumenter bug?): %s", r.Violations[0].Detail+" expected "+r.Violations[0].Expected+" observed "+r.Violations[0].Observed)
			}
		}
	}
	oi.iso = len(iso)
	oi.siteBits = inst.SiteBits
	steps := make([]int64, n)
	for i, id := range inst.IDs {
		if i < len(inst.Steps) {
			steps[id] = inst.Steps[i]
		}
	}
	for id := range steps {
		if steps[id] > cfg.maxStep {
			oi.dropped++
		}
	}
	oi.expected = proto.Expected{Outcome: ref, Steps: steps}
	writeJSON(filepath.Join(scratch, "expected.json"), oi.expected)
	return oi
}

type simAgg struct {
	runs, ops, steps, switches int64
	procs                      int
	policy                     map[string]int
	faults                     map[string]int
	probes                     map[string]int
	tasksHist                  []int
	sigs                       []uint64
	siteBits                   []uint8
	samples                    []proto.RunRec
	wallMs                     int64
	perBuild                   map[string]int64
	sigAll                     map[string]map[int]uint64 // build -> proc -> SigAll
	runsByProc                 map[string]map[int]int
	callsUsed                  int
	usedCalls                  map[int32]bool
	records                    []*proto.Record
	crashes                    []crashInfo
	mode                       string
}

type crashInfo struct {
	build    string
	proc     int
	run      int
	msg      string
	captured string
	free     bool
}

// crashRecord: the sim process died during run c.run; rebuild the record of everything
// that process had executed (seeded workloads and policies) for replay / minimisation.
func crashRecord(b builds, cfg tierCfg, c crashInfo) *proto.Record {
	var recs []proto.RunRec
	out := filepath.Join(scratch, "crashrecs.json")
	if o, err := run(scratch, []string{"GOMAXPROCS=1"}, 2*time.Minute, b.plain, "records", "-seed", strconv.FormatUint(seed, 10), "-proc", strconv.Itoa(c.proc),
		"-clock="+strconv.FormatBool(usesClock(b)), "-from", "0", "-runs", strconv.Itoa(c.run+1), "-corpus", filepath.Join(scratch, "corpus.json"),
		"-expected", filepath.Join(scratch, "expected.json"), "-maxstep", strconv.FormatInt(cfg.maxStep, 10), "-out", out); err != nil {
		fatal("records: %v\n%s", err, o)
	}
	if err := readJSON(out, &recs); err != nil || len(recs) != c.run+1 {
		fatal("records: %v", err)
	}
	if c.free {
		for i := range recs {
			recs[i].Policy = proto.PolicyRec{Kind: "free"}
		}
	}
	return &proto.Record{Property: propID, Class: "crash", Build: c.build, Seed: seed, Proc: c.proc, ReplayMode: "exact",
		Prefix: recs[:c.run], Run: recs[c.run],
		Violations: []proto.Violation{{Class: "crash", Task: -1, Op: -1, Detail: "the process died during simulated run " + strconv.Itoa(c.run) + ": " + c.msg, RaceLog: tail(c.captured, 3000)}}}
}

func newAgg() *simAgg {
	return &simAgg{policy: map[string]int{}, faults: map[string]int{}, probes: map[string]int{}, tasksHist: make([]int, 65),
		perBuild: map[string]int64{}, sigAll: map[string]map[int]uint64{"race": {}, "plain": {}}, runsByProc: map[string]map[int]int{"race": {}, "plain": {}}}
}

func (a *simAgg) add(r *proto.ProcResult) {
	a.procs++
	a.runs += int64(r.Runs)
	a.ops += r.Ops
	a.steps += r.Steps
	a.switches += r.Switches
	a.wallMs += r.WallMs
	a.perBuild[r.Build] += int64(r.Runs)
	for k, v := range r.PolicyRuns {
		a.policy[k] += v
	}
	for k, v := range r.Faults {
		a.faults[k] += v
	}
	for k, v := range r.Probes {
		if strings.HasSuffix(k, "_max") {
			if v > a.probes[k] {
				a.probes[k] = v
			}
			continue
		}
		a.probes[k] += v
	}
	for i, v := range r.TasksHist {
		if i < len(a.tasksHist) {
			a.tasksHist[i] += v
		}
	}
	a.sigs = append(a.sigs, r.NonTrivial...)
	if len(a.siteBits) < len(r.SiteBits) {
		nb := make([]uint8, len(r.SiteBits))
		copy(nb, a.siteBits)
		a.siteBits = nb
	}
	for i, v := range r.SiteBits {
		a.siteBits[i] |= v
	}
	if len(a.samples) < 3 {
		a.samples = append(a.samples, r.Samples...)
	}
	if r.Record == nil {
		if m, ok := a.sigAll[r.Build]; ok {
			m[r.Proc] = r.SigAll
			a.runsByProc[r.Build][r.Proc] = r.Runs
		}
	}
	if r.CallsUsed > a.callsUsed {
		a.callsUsed = r.CallsUsed
	}
	if a.usedCalls == nil {
		a.usedCalls = map[int32]bool{}
	}
	for _, id := range r.UsedCalls {
		a.usedCalls[id] = true
	}
	if r.Record != nil {
		a.records = append(a.records, r.Record)
	}
}

// runSims starts cfg.procs processes per build and aggregates. It stops launching new
// processes after the first violation.
func runSims(b builds, cfg tierCfg, free bool) *simAgg {
	agg := newAgg()
	type job struct {
		build string
		proc  int
	}
	var jobs []job
	for p := 0; p < cfg.procs; p++ {
		for _, bn := range strings.Split(buildsFlag, ",") {
			jobs = append(jobs, job{bn, p})
		}
	}
	var mu sync.Mutex
	stop := false
	var wg sync.WaitGroup
	ch := make(chan job)
	corpusPath := filepath.Join(scratch, "corpus.json")
	expPath := filepath.Join(scratch, "expected.json")
	var firstErr error
	for w := 0; w < workers; w++ {
		wg.Add(1)
		go func() {
			defer wg.Done()
			for j := range ch {
				mu.Lock()
				s := stop
				mu.Unlock()
				if s {
					continue
				}
				args := []string{"sim", "-seed", strconv.FormatUint(seed, 10), "-proc", strconv.Itoa(j.proc), "-runs", strconv.Itoa(cfg.runs),
					"-corpus", corpusPath, "-expected", expPath, "-build", j.build, "-maxstep", strconv.FormatInt(cfg.maxStep, 10),
					"-budget-ms", strconv.FormatInt(cfg.procWall.Milliseconds()/2, 10)}
				gmp := 1
				if free {
					args = append(args, "-free")
					gmp = 8
				}
				if usesClock(b) {
					args = append(args, "-clock")
				}
				po := runHarness(binFor(b, j.build), gmp, cfg.procWall, args...)
				mu.Lock()
				if po.crash != "" {
					at := 0
					if len(po.progress) > 0 {
						at, _ = strconv.Atoi(po.progress[len(po.progress)-1])
					}
					agg.crashes = append(agg.crashes, crashInfo{j.build, j.proc, at, po.crash, po.captured, free})
					stop = true
				} else if po.err != nil {
					if free && strings.Contains(po.captured, "fatal error: concurrent map") {
						// a real data race that the runtime caught (free-running mode only)
						agg.records = append(agg.records, &proto.Record{Property: propID, Class: "data_race", Build: j.build, Seed: seed, Proc: j.proc,
							ReplayMode: "probabilistic", Violations: []proto.Violation{{Class: "data_race", Detail: "runtime: " + firstLine(po.captured), RaceLog: tail(po.captured, 3000)}}})
						stop = true
					} else if firstErr == nil {
						firstErr = po.err
						stop = true
					}
				} else {
					agg.add(&po.res)
					if po.res.Record != nil {
						stop = true
					}
				}
				mu.Unlock()
			}
		}()
	}
	for _, j := range jobs {
		ch <- j
	}
	close(ch)
	wg.Wait()
	if firstErr != nil {
		fatal("%v", firstErr)
	}
	if free {
		agg.mode = "degraded"
	} else {
		agg.mode = "simulated"
	}
	return agg
}

func firstLine(s string) string {
	for _, l := range strings.Split(s, "\n") {
		if strings.HasPrefix(l, "fatal error") {
			return l
		}
	}
	if i := strings.IndexByte(s, '\n'); i >= 0 {
		return s[:i]
	}
	return s
}

func distinct(s []uint64) int {
	if len(s) == 0 {
		return 0
	}
	c := append([]uint64(nil), s...)
	sort.Slice(c, func(i, j int) bool { return c[i] < c[j] })
	n := 1
	for i := 1; i < len(c); i++ {
		if c[i] != c[i-1] {
			n++
		}
	}
	return n
}

func doCheck(b builds, cfg tierCfg) int {
	degraded := len(b.rep.Unmodelled) > 0
	degradedMode = degraded
	if degraded {
		logf("the tree contains %d construct(s) the simulator has no model for -> DEGRADED mode (free-running goroutines under -race)", len(b.rep.Unmodelled))
	}
	knownExcluded := map[int]string{}
	announced := map[string]bool{}
	var (
		oi            oracleInfo
		agg           *simAgg
		viol, final   *proto.Record
		eq, cmp, code int
		st            *selfTestResult
		mt            *modelTestResult
		replayPath    string
	)
	for attempt := 0; ; attempt++ {
		again := false
		oi = buildOracle(b, cfg, knownExcluded)
		logf("sequential reference: %d calls, %d executed in batch passes (canonical, reverse, shuffled x2, soak %d in one process), %d alone in a fresh process, %d over the step bound",
			len(oi.corpus.Calls), oi.batch, oi.soak, oi.iso, oi.dropped)
		if oi.unmanaged > 0 && !degraded {
			degraded = true
			degradedMode = true
			b.rep.Unmodelled = append(b.rep.Unmodelled, []byte(fmt.Sprintf(`{"what":"%d goroutine(s) started by the library outside of any call (package initialisation): not under the simulator's control","pos":"runtime observation"}`, oi.unmanaged)))
			logf("the library starts goroutines during package initialisation -> DEGRADED mode")
		}
		agg, viol = nil, nil
		if oi.viol != nil {
			viol = oi.viol
			agg = newAgg()
		} else {
			agg = runSims(b, cfg, degraded)
			logf("simulation: %d runs in %d processes, %d ops, %.3g steps, %d preemptive switches", agg.runs, agg.procs, agg.ops, float64(agg.steps), agg.switches)
			if len(agg.records) == 0 && len(agg.crashes) > 0 {
				sort.Slice(agg.crashes, func(i, j int) bool { return agg.crashes[i].proc < agg.crashes[j].proc })
				viol = crashRecord(b, cfg, agg.crashes[0])
			}
			if len(agg.records) > 0 {
				sort.Slice(agg.records, func(i, j int) bool {
					if agg.records[i].Proc != agg.records[j].Proc {
						return agg.records[i].Proc < agg.records[j].Proc
					}
					return agg.records[i].Build > agg.records[j].Build
				})
				viol = agg.records[0]
			}
		}
		// determinism cross-check between the two builds (same seed, same proc => same runs)
		eq, cmp = 0, 0
		for p, s := range agg.sigAll["race"] {
			if s2, ok := agg.sigAll["plain"][p]; ok && agg.runsByProc["race"][p] == agg.runsByProc["plain"][p] {
				cmp++
				if s == s2 {
					eq++
				}
			}
		}
		st, mt = nil, nil
		if viol == nil && cfg.selftest && !degraded {
			r := selftest(b, cfg, 30, 30)
			st = &r
			m := modelTest()
			mt = &m
		}
		code, replayPath, final = 0, "", nil
		known := loadKnown()
		if viol != nil {
			logf("violation observed: class=%s build=%s proc=%d run=%d; confirming and minimising", viol.Class, viol.Build, viol.Proc, viol.Run.Index)
			final = confirmAndMinimise(b, cfg, viol)
			final.Trace = renderTrace(b, final)
			if kf := known.match(final); kf != nil {
				if !announced[kf.Description] {
					fmt.Printf("KNOWN-FINDING: property=%s %s\n", propID, kf.Description)
					announced[kf.Description] = true
				}
				// a listed finding suppresses exactly itself: take the calls it involves out
				// of the corpus and look again for anything else
				n0 := len(knownExcluded)
				for _, t := range final.Run.Tasks {
					for _, op := range t.Ops {
						if op.Call >= 0 {
							knownExcluded[op.Call] = "named by a known finding"
						}
					}
				}
				if attempt < 6 && len(knownExcluded) > n0 {
					final, viol = nil, nil
					again = true
				}
			} else {
				os.MkdirAll(filepath.Join(verifDir, "replays"), 0o755)
				replayPath = filepath.Join(verifDir, "replays", fmt.Sprintf("%s-%d-%s.json", propID, seed, final.Class))
				writeJSON(replayPath, final)
				code = 1
			}
		}
		if !again {
			break
		}
	}
	if !degraded && viol == nil && cmp > 0 && eq != cmp && len(b.rep.MapRange) == 0 && len(b.rep.ImportsOfNote) == 0 && b.rep.NShared == 0 && pinnedSources() {
		fatal("run signatures differ between the race and the plain build for the same seed (%d of %d equal) although the tree has no uncontrolled nondeterminism source: simulator bug", eq, cmp)
	}
	if st != nil && !st.ok && len(b.rep.MapRange) == 0 && len(b.rep.ImportsOfNote) == 0 && b.rep.NShared == 0 && pinnedSources() {
		fatal("determinism self-test failed: %s", st.detail)
	}
	if mt != nil && !mt.ok {
		fatal("simulator model test failed: %s", mt.detail)
	}
	writeEvidence(b, cfg, oi, agg, eq, cmp, st, mt, final, replayPath)
	if code == 1 {
		for _, v := range final.Violations {
			fmt.Printf("  %s: %s\n", v.Class, v.Detail)
			if v.Expected != "" || v.Observed != "" {
				fmt.Printf("    expected: %s\n    observed: %s\n", v.Expected, v.Observed)
			}
			for _, f := range v.Frames {
				fmt.Printf("    frame: %s\n", f)
			}
		}
		fmt.Printf("VIOLATION property=%s replay=%s\n", propID, replayPath)
	} else {
		fmt.Printf("OK property=%s tier=%s seed=%d runs=%d wall=%.1fs\n", propID, cfg.name, seed, agg.runs, time.Since(tStart).Seconds())
	}
	return code
}

func usesClock(b builds) bool {
	n := 0
	for k, v := range b.rep.Rewrites {
		if strings.HasPrefix(k, "time.") || strings.HasPrefix(k, "(*time.") {
			n += v
		}
	}
	return n > 0
}

var soakN = 70000

func soakCallsFor() int { return soakN }

// pinnedSources: are the library sources byte-identical to the pinned commit this
// framework was developed against (fingerprint in pinned_sources.sha256)? Only then is a
// signature difference between the two builds certainly the simulator's fault; on any
// other tree it is reported in the evidence and nothing more.
func pinnedSources() bool {
	want, err := os.ReadFile(filepath.Join(verifDir, "pinned_sources.sha256"))
	if err != nil {
		return false
	}
	return strings.TrimSpace(string(want)) == sourcesFingerprint()
}

func sourcesFingerprint() string {
	h := sha256.New()
	for _, dir := range []string{"spdxexp", "spdxexp/spdxlicenses"} {
		ents, err := os.ReadDir(filepath.Join(repoDir, dir))
		if err != nil {
			return "unreadable"
		}
		for _, e := range ents {
			if e.IsDir() || !strings.HasSuffix(e.Name(), ".go") || strings.HasSuffix(e.Name(), "_test.go") {
				continue
			}
			b, err := os.ReadFile(filepath.Join(repoDir, dir, e.Name()))
			if err != nil {
				return "unreadable"
			}
			fmt.Fprintf(h, "%s/%s %d\n", dir, e.Name(), len(b))
			h.Write(b)
		}
	}
	return hex.EncodeToString(h.Sum(nil))
}
