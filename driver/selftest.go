package main

import (
	"fmt"
	"path/filepath"
	"strconv"
	"sync"
)

type selfTestResult struct {
	ok         bool
	detail     string
	Seeds      int      `json:"seeds"`
	Processes  int      `json:"processes"`
	RunsEach   int      `json:"runs_each"`
	GOMAXPROCS []int    `json:"gomaxprocs"`
	Builds     []string `json:"builds"`
	Identical  int      `json:"seeds_with_identical_event_log_signatures"`
}

// selftest: the same (seed, proc) must produce the same per-run event-log signatures in
// every process, whatever GOMAXPROCS and whichever build (DESIGN 3.12).
func selftest(b builds, cfg tierCfg, nseeds, nprocs int) selfTestResult {
	const runsEach = 40
	st := selfTestResult{Seeds: nseeds, RunsEach: runsEach, GOMAXPROCS: []int{1, 4, 16}, Builds: []string{"race", "plain"}, ok: true}
	corpusPath := filepath.Join(scratch, "corpus.json")
	expPath := filepath.Join(scratch, "expected.json")
	type job struct{ seedIdx, k int }
	sigs := make([][][]uint64, nseeds)
	for i := range sigs {
		sigs[i] = make([][]uint64, nprocs)
	}
	labels := make([][]string, nseeds)
	for i := range labels {
		labels[i] = make([]string, nprocs)
	}
	ch := make(chan job)
	var wg sync.WaitGroup
	var mu sync.Mutex
	var firstErr error
	// GOMAXPROCS=16 processes spin on all cores: keep the pool small
	w := workers / 4
	if w < 2 {
		w = 2
	}
	for i := 0; i < w; i++ {
		wg.Add(1)
		go func() {
			defer wg.Done()
			for j := range ch {
				s := seed + 1000 + uint64(j.seedIdx)
				gmp := st.GOMAXPROCS[j.k%3]
				build := st.Builds[(j.k/3)%2]
				po := runHarness(binFor(b, build), gmp, cfg.procWall, "sim", "-seed", strconv.FormatUint(s, 10), "-proc", "0", "-runs", strconv.Itoa(runsEach),
					"-corpus", corpusPath, "-expected", expPath, "-build", build, "-sigs", "-maxstep", strconv.FormatInt(cfg.maxStep, 10))
				mu.Lock()
				if po.err != nil && firstErr == nil {
					firstErr = po.err
				}
				sigs[j.seedIdx][j.k] = po.res.RunSigs
				labels[j.seedIdx][j.k] = fmt.Sprintf("GOMAXPROCS=%d build=%s", gmp, build)
				st.Processes++
				mu.Unlock()
			}
		}()
	}
	for s := 0; s < nseeds; s++ {
		for k := 0; k < nprocs; k++ {
			ch <- job{s, k}
		}
	}
	close(ch)
	wg.Wait()
	if firstErr != nil {
		fatal("selftest: %v", firstErr)
	}
	for s := 0; s < nseeds; s++ {
		same := true
		for k := 1; k < nprocs; k++ {
			a, c := sigs[s][0], sigs[s][k]
			if len(a) != len(c) {
				same = false
				st.detail = fmt.Sprintf("seed %d: %d runs (%s) vs %d runs (%s)", seed+1000+uint64(s), len(a), labels[s][0], len(c), labels[s][k])
				break
			}
			for i := range a {
				if a[i] != c[i] {
					same = false
					st.detail = fmt.Sprintf("seed %d run %d: signature %x (%s) vs %x (%s)", seed+1000+uint64(s), i, a[i], labels[s][0], c[i], labels[s][k])
					break
				}
			}
			if !same {
				break
			}
		}
		if same {
			st.Identical++
		} else {
			st.ok = false
		}
	}
	logf("determinism self-test: %d seeds x %d processes (GOMAXPROCS 1/4/16, race+plain builds), %d runs each: %d/%d seeds with identical event-log signatures",
		nseeds, nprocs, runsEach, st.Identical, nseeds)
	return st
}

func doSelftest(b builds, cfg tierCfg, nseeds, nprocs int) int {
	oi := buildOracle(b, cfg, nil)
	if oi.viol != nil {
		fmt.Println("selftest: the sequential reference is not consistent on this tree; run the check instead")
		return 2
	}
	st := selftest(b, cfg, nseeds, nprocs)
	if !st.ok {
		fmt.Printf("SELFTEST FAILED: %s\n", st.detail)
		return 2
	}
	fmt.Println("SELFTEST OK")
	return 0
}
