package main

import (
	"fmt"
	"os"
	"path/filepath"
	"strconv"
	"strings"
	"sync"
	"time"
)

type modelTestResult struct {
	ok           bool
	detail       string
	Processes    int               `json:"processes"`
	Seeds        int               `json:"seeds"`
	RunsEach     int               `json:"runs_each"`
	Identical    int               `json:"seeds_with_identical_signatures_and_correct_results"`
	Rewrites     map[string]int    `json:"rewrites_in_the_synthetic_library"`
	DefectsFound map[string]string `json:"seeded_model_defects_detected"`
}

// modelTest exercises the simulator's model of goroutines, WaitGroup, channels, Mutex,
// RWMutex, Once on a synthetic library (verif/modeltest): correct functions must run to
// completion with right results and identical signatures whatever GOMAXPROCS and build;
// each classic defect must be exposed within a small budget.
func modelTest() modelTestResult {
	mt := modelTestResult{ok: true, Seeds: 10, RunsEach: 300, DefectsFound: map[string]string{}}
	env := goEnv()
	dir := filepath.Join(scratch, "modeltest")
	instr := filepath.Join(scratch, "bin", "instr")
	rep := filepath.Join(scratch, "modeltest_report.json")
	if out, err := run(verifDir, env, 2*time.Minute, instr, "-repo", filepath.Join(verifDir, "modeltest"), "-out", dir, "-mode", "instr",
		"-simrt", filepath.Join(verifDir, "simrt"), "-roots", "lib", "-report", rep); err != nil {
		fatal("modeltest: instrumenter: %v\n%s", err, out)
	}
	var ir instrReport
	if err := readJSON(rep, &ir); err != nil {
		fatal("modeltest: %v", err)
	}
	mt.Rewrites = ir.Rewrites
	if len(ir.Unmodelled) > 0 {
		fatal("modeltest: synthetic library has unmodelled constructs: %v", ir.Unmodelled)
	}
	copyTree(filepath.Join(verifDir, "modeltest", "cmd"), filepath.Join(dir, "cmd"))
	plain := filepath.Join(scratch, "bin", "mt_plain")
	race := filepath.Join(scratch, "bin", "mt_race")
	if out, err := run(dir, env, 10*time.Minute, "go", "build", "-o", plain, "./cmd"); err != nil {
		fatal("modeltest build: %v\n%s", err, out)
	}
	if out, err := run(dir, env, 10*time.Minute, "go", "build", "-race", "-o", race, "./cmd"); err != nil {
		fatal("modeltest build: %v\n%s", err, out)
	}
	bins := map[string]string{"plain": plain, "race": race}
	runOne := func(build string, gmp int, args ...string) string {
		n := procSeq()
		rl := filepath.Join(scratch, "p", fmt.Sprintf("mtrace.%d", n))
		os.MkdirAll(filepath.Join(scratch, "p"), 0o755)
		e := append(os.Environ(), fmt.Sprintf("GOMAXPROCS=%d", gmp), "GORACE=log_path="+rl+" halt_on_error=0 exitcode=0 atexit_sleep_ms=0", "MODELTEST_RACELOG="+rl, "GODEBUG=")
		out, _ := run(scratch, e, 5*time.Minute, bins[build], args...)
		ms, _ := filepath.Glob(rl + ".*")
		for _, m := range ms {
			os.Remove(m)
		}
		lines := strings.Split(strings.TrimSpace(out), "\n")
		return lines[len(lines)-1]
	}
	// A. correctness + determinism
	type key struct{ seed, k int }
	outs := map[key]string{}
	var mu sync.Mutex
	var wg sync.WaitGroup
	sem := make(chan struct{}, workers/4+1)
	combos := []struct {
		build string
		gmp   int
	}{{"plain", 1}, {"plain", 4}, {"plain", 16}, {"race", 1}, {"race", 4}, {"race", 16}}
	for s := 1; s <= mt.Seeds; s++ {
		for k, c := range combos {
			wg.Add(1)
			sem <- struct{}{}
			go func(s, k int, build string, gmp int) {
				defer wg.Done()
				defer func() { <-sem }()
				o := runOne(build, gmp, "ok", "-seed", strconv.FormatUint(seed+uint64(s), 10), "-runs", strconv.Itoa(mt.RunsEach))
				if o == "" {
					// no output at all: killed by the watchdog on a loaded machine; once more
					o = runOne(build, gmp, "ok", "-seed", strconv.FormatUint(seed+uint64(s), 10), "-runs", strconv.Itoa(mt.RunsEach))
				}
				mu.Lock()
				outs[key{s, k}] = o
				mt.Processes++
				mu.Unlock()
			}(s, k, c.build, c.gmp)
		}
	}
	wg.Wait()
	for s := 1; s <= mt.Seeds; s++ {
		same := true
		for k := range combos {
			o := outs[key{s, k}]
			if !strings.HasPrefix(o, "OK ") || o != outs[key{s, 0}] {
				same = false
				mt.ok = false
				mt.detail = fmt.Sprintf("seed %d, %s GOMAXPROCS=%d: %q vs %q", seed+uint64(s), combos[k].build, combos[k].gmp, o, outs[key{s, 0}])
			}
		}
		if same {
			mt.Identical++
		}
	}
	// B. sensitivity: every seeded model defect must show within the budget
	defects := []struct {
		fn    int
		name  string
		build string
	}{{20, "unsynchronised counter (data race)", "race"}, {21, "recursive RLock with queued writer (deadlock)", "plain"}, {22, "torn update in two critical sections (wrong result)", "plain"},
		{23, "lock-order inversion (deadlock)", "plain"}, {24, "coalescing with a capacity-1 channel, 3 waiters (wrong result)", "plain"}, {25, "first error found by concurrent workers (schedule-dependent result)", "plain"},
		{26, "select on found/done when both are ready (random pick: wrong result)", "plain"},
		{28, "sync.Cond waited on with if instead of for (wrong result after Broadcast)", "plain"},
		{29, "n.CompareAndSwap(n.Load(), n.Load()+1) assumed to succeed: race-free read-modify-write inside one statement (wrong result; needs a yield point inside the expression)", "plain"},
		{27, "TTL cache whose ticker-driven janitor evicts in two steps (wrong result; needs simulated time to pass)", "plain"}}
	for _, d := range defects {
		found := ""
		for s := 1; s <= 3 && found == ""; s++ {
			o := runOne(d.build, 1, "bug", "-fn", strconv.Itoa(d.fn), "-seed", strconv.FormatUint(seed+uint64(s), 10), "-runs", "3000")
			mt.Processes++
			if strings.HasPrefix(o, "DETECTED") {
				found = o
			}
		}
		if found == "" {
			mt.ok = false
			mt.detail = "model defect not exposed: " + d.name
			found = "NOT DETECTED"
		}
		mt.DefectsFound[d.name] = found
	}
	logf("simulator model test (synthetic library with goroutines, WaitGroup, channels, Mutex, RWMutex, Once): %d/%d seeds correct and identical over GOMAXPROCS 1/4/16 x race/plain; %d/%d seeded model defects exposed",
		mt.Identical, mt.Seeds, countDetected(mt.DefectsFound), len(defects))
	return mt
}

func countDetected(m map[string]string) int {
	n := 0
	for _, v := range m {
		if strings.HasPrefix(v, "DETECTED") {
			n++
		}
	}
	return n
}

// modelTestBuildOnly compiles the synthetic library once (cache warm-up).
func modelTestBuildOnly() {
	env := goEnv()
	dir := filepath.Join(scratch, "modeltest")
	instr := filepath.Join(scratch, "bin", "instr")
	if out, err := run(verifDir, env, 2*time.Minute, instr, "-repo", filepath.Join(verifDir, "modeltest"), "-out", dir, "-mode", "instr",
		"-simrt", filepath.Join(verifDir, "simrt"), "-roots", "lib"); err != nil {
		fatal("modeltest: instrumenter: %v\n%s", err, out)
	}
	copyTree(filepath.Join(verifDir, "modeltest", "cmd"), filepath.Join(dir, "cmd"))
	for _, a := range [][]string{{"build", "-o", os.DevNull, "./cmd"}, {"build", "-race", "-o", os.DevNull, "./cmd"}} {
		if out, err := run(dir, env, 10*time.Minute, "go", a...); err != nil {
			fatal("modeltest build: %v\n%s", err, out)
		}
	}
}
