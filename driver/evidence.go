package main

import (
	"fmt"
	"time"

	"verif/proto"
)

func writeEvidence(b builds, cfg tierCfg, oi oracleInfo, agg *simAgg, eq, cmp int, st *selfTestResult, mt *modelTestResult, final *proto.Record, replayPath string) {
	wall := time.Since(tStart).Seconds()
	// the instrumented reference pass executes every corpus call: its sites count as reached
	if len(agg.siteBits) < len(oi.siteBits) {
		nb := make([]uint8, len(oi.siteBits))
		copy(nb, agg.siteBits)
		agg.siteBits = nb
	}
	for i, v := range oi.siteBits {
		agg.siteBits[i] |= v & 1
	}
	reached, preempted := 0, 0
	for _, v := range agg.siteBits {
		if v&1 != 0 {
			reached++
		}
		if v&2 != 0 {
			preempted++
		}
	}
	var unreached []string
	for _, st := range b.rep.Sites {
		if st.ID < len(agg.siteBits) && agg.siteBits[st.ID]&1 == 0 && len(agg.siteBits) > 0 {
			unreached = append(unreached, st.File+" "+st.Func)
		}
	}
	var samples []any
	for _, s := range agg.samples {
		samples = append(samples, s)
	}
	if len(samples) == 0 {
		// no simulated run completed (violation in the sequential reference): show the
		// sequential passes instead
		for i := 0; i < 3 && i < len(oi.corpus.Calls); i++ {
			samples = append(samples, map[string]any{"sequential_reference_call": oi.corpus.Calls[i], "outcome": oi.expected.Outcome[i]})
		}
	}
	evals := agg.runs + int64(oi.batch) + int64(oi.iso)
	dn := distinct(agg.sigs)
	runsPerHour, stepsPerHour := 0.0, 0.0
	if wall > 0 {
		runsPerHour = float64(agg.runs) / wall * 3600
		stepsPerHour = float64(agg.steps) / wall * 3600
	}
	mode := agg.mode
	if mode == "" {
		mode = "simulated"
	}
	cov := map[string]any{
		"evaluations":         evals,
		"distinct_nontrivial": dn,
		"rule": "evaluation = one simulated run (a generated workload of 1-8 caller tasks (rarely a crowd of 17-64) x 1-6 calls each, one seeded schedule, one seeded fault plan) or one call of a sequential-reference pass. " +
			"A run is non-trivial iff >=2 tasks were inside a library call at the same time and >=1 preemptive switch happened (for the no-preemption policy 'seq': >=2 calls in a seeded order). " +
			"Distinct = distinct 64-bit signatures of the run's event log (every switch with task/op/step-in-op/site, every fault event, every op begin/end with the hash of its outcome), counted by the driver over all processes of both builds.",
		"samples":                             samples,
		"exhaustive":                          false,
		"mode":                                mode,
		"simulated_runs":                      agg.runs,
		"runs_per_build":                      agg.perBuild,
		"processes":                           agg.procs,
		"cold_starts":                         agg.faults["cold"],
		"operations":                          agg.ops,
		"logical_steps_simulated_time":        agg.steps,
		"preemptive_switches":                 agg.switches,
		"runs_per_hour":                       runsPerHour,
		"steps_per_hour":                      stepsPerHour,
		"seeds":                               []uint64{seed},
		"fault_kinds_fired":                   agg.faults,
		"policy_runs":                         agg.policy,
		"tasks_per_run_histogram":             agg.tasksHist,
		"reach_probes":                        agg.probes,
		"yield_sites_total":                   len(b.rep.Sites),
		"yield_sites_reached":                 reached,
		"yield_sites_preempted_at":            preempted,
		"yield_sites_never_reached":           unreached,
		"shared_sites":                        b.rep.NShared,
		"api_sites":                           b.rep.NAPI,
		"package_level_vars":                  len(b.rep.PkgVars),
		"map_range_sites":                     len(b.rep.MapRange),
		"unmodelled_constructs":               b.rep.Unmodelled,
		"imports_of_note":                     b.rep.ImportsOfNote,
		"sync_rewrites":                       b.rep.Rewrites,
		"api_functions":                       b.rep.APIFuncs,
		"corpus_calls":                        len(oi.corpus.Calls),
		"corpus_calls_used_in_simulated_runs": len(agg.usedCalls),
		"corpus_calls_used_max_per_process":   agg.callsUsed,
		"corpus_calls_over_step_bound":        oi.dropped,
		"corpus_calls_removed_because_they_crash_or_hang_even_alone": len(oi.excluded),
		"oracle_batch_calls":               oi.batch,
		"oracle_soak_calls_in_one_process": oi.soak,
		"oracle_isolated_process_calls":    oi.iso,
		"builds_equal_signature":           fmt.Sprintf("%d of %d (seed, process) pairs gave the identical run-signature chain in the -race and the plain build", eq, cmp),
		"bounds": map[string]any{"max_caller_tasks": 64, "usual_caller_tasks": "1-8", "max_ops_per_task": 6, "max_expression_bytes": 6000, "max_list_entries": 1100, "max_steps_per_call": cfg.maxStep,
			"runs_per_process": cfg.runs, "processes_per_build": cfg.procs},
		"components": map[string]string{
			"spdxexp, spdxlicenses":   "REAL code: current /repo working tree, copied to a scratch dir and instrumented with yield points at check time",
			"go standard library, GC": "real, uninstrumented; automatic GC off during runs, collections only where the simulator injects them",
			"caller goroutines":       "real goroutines, released one at a time by the simulator (choice of who runs: simulator PRNG only); hand-off invisible to the race detector",
			"stdout/stderr":           "real fds 1/2 redirected to a capture file",
			"clock, timers":           "the pinned tree has none; when a tree under check uses time.Now/Sleep/After/Tick/Timer/Ticker/AfterFunc they are rewritten to the simulated clock (see sync_rewrites for what was rewritten in this run)",
			"network, disk":           "do not exist in the library: nothing to stub",
			"sync primitives, goroutines, channels, select": "the pinned tree has none; in a tree under check they are rewritten to simulator models (Mutex, RWMutex, Once, WaitGroup, Cond, go, chan, select), anything unmodelled switches the run to free-running goroutines under -race (mode = degraded)",
			"sequential reference":                          "the same tree, uninstrumented, one call at a time in fresh processes",
			"stubs":                                         "none",
		},
	}
	if st != nil {
		cov["determinism_selftest"] = st
	}
	if mt != nil {
		cov["simulator_model_test"] = mt
	}
	viols := 0
	if final != nil {
		viols = 1
		cov["violation"] = map[string]any{"class": final.Class, "replay": replayPath, "note": final.Note, "violations": final.Violations}
	}
	ev := map[string]any{
		"property_id": propID,
		"tier":        cfg.name,
		"seed":        int64(seed & 0x7fffffffffffffff),
		"level":       "exploration",
		"coverage":    cov,
		"assumptions": []string{
			"the Go standard library and the Go race detector are trusted (the detector reports no false positives)",
			"purity is read as including aliasing: what a caller does to a slice it passed in (after the call) or got back cannot change later results; getters of spdxlicenses are in scope",
			"'any number of goroutines' is sampled with 1..8 caller tasks, rarely 17..64; seeded sampling of schedules and histories, not a proof",
			"map iteration order and race-build sync.Pool drops are outside the simulator's seams (0 map-range sites on this tree is re-measured on every run)",
			"inputs that panic on this tree are treated as ordinary repeatable outcomes (C13 is silent about panics)",
		},
		"wall_s":     wall,
		"violations": viols,
	}
	writeJSON(evidence, ev)
}
