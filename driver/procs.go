package main

import (
	"context"
	"fmt"
	"os"
	"os/exec"
	"path/filepath"
	"strconv"
	"strings"
	"sync/atomic"
	"time"

	"verif/proto"
)

var procCounter int64

type procOut struct {
	res      proto.ProcResult
	exit     int
	captured string // head and tail of what arrived on fd 1/2 (library output or a runtime crash)
	err      error
	crash    string   // the process died from a Go runtime fatal error / unrecovered panic inside library code
	progress []string // lines of the progress file
}

// crashLine: if the captured output is a Go runtime crash whose trace goes through library
// code, return its first line. A crash without a library frame is a harness problem.
func crashLine(captured string) string {
	msg := ""
	for _, l := range strings.Split(captured, "\n") {
		if msg == "" && (strings.HasPrefix(l, "fatal error:") || strings.HasPrefix(l, "panic:") || strings.HasPrefix(l, "runtime: goroutine stack exceeds") ||
			strings.HasPrefix(l, "unexpected fault address") || strings.Contains(l, "SIGSEGV") || strings.Contains(l, "SIGBUS")) {
			msg = l
		}
		if msg != "" && strings.Contains(l, modulePath()+"/") && !strings.Contains(l, "zz_simrt") {
			return msg
		}
	}
	return ""
}

// runHarness starts one harness process with GOMAXPROCS=gmp and waits for it.
func runHarness(bin string, gmp int, wall time.Duration, args ...string) procOut {
	n := atomic.AddInt64(&procCounter, 1)
	dir := filepath.Join(scratch, "p")
	os.MkdirAll(dir, 0o755)
	out := filepath.Join(dir, fmt.Sprintf("res.%d.json", n))
	capf := filepath.Join(dir, fmt.Sprintf("cap.%d", n))
	racef := filepath.Join(dir, fmt.Sprintf("race.%d", n))
	full := append([]string{}, args...)
	progf := filepath.Join(dir, fmt.Sprintf("prog.%d", n))
	full = append(full, "-out", out, "-capture", capf, "-progress", progf)
	ctx, cancel := context.WithTimeout(context.Background(), wall)
	defer cancel()
	cmd := exec.CommandContext(ctx, bin, full...)
	initProcs := 1
	for i := 0; i+1 < len(args); i++ {
		if args[i] == "-proc" {
			if p, err := strconv.Atoi(args[i+1]); err == nil && p >= 0 {
				// what runtime.GOMAXPROCS(0) / NumCPU() answer OUTSIDE of runs (package
				// initialisation of the library): a function of the process number, so that
				// replays see the same value
				initProcs = []int{1, 2, 4, 8, 16}[p%5]
			}
		}
	}
	cmd.Env = append(os.Environ(),
		fmt.Sprintf("GOMAXPROCS=%d", gmp),
		fmt.Sprintf("VERIF_INIT_PROCS=%d", initProcs),
		"GORACE=log_path="+racef+" halt_on_error=0 exitcode=0 atexit_sleep_ms=0 history_size=2",
		"VERIF_RACELOG="+racef,
		"GOTRACEBACK=single",
		"GODEBUG=", // nothing but the library may write to fd 1/2
	)
	cmd.Dir = dir
	err := cmd.Run()
	var po procOut
	if ctx.Err() != nil {
		po.err = fmt.Errorf("watchdog: harness process exceeded %v (%s %s)", wall, filepath.Base(bin), strings.Join(args, " "))
		return po
	}
	if err != nil {
		if ee, ok := err.(*exec.ExitError); ok {
			po.exit = ee.ExitCode()
		} else {
			po.err = err
			return po
		}
	}
	if b, e := os.ReadFile(capf); e == nil && len(b) > 0 {
		if len(b) > 8000 {
			b = append(append(append([]byte{}, b[:4000]...), []byte("\n[...]\n")...), b[len(b)-4000:]...)
		}
		po.captured = string(b)
	}
	if b, e := os.ReadFile(progf); e == nil {
		po.progress = strings.Split(strings.TrimSpace(string(b)), "\n")
	}
	defer func() {
		if !keep {
			os.Remove(progf)
		}
	}()
	if po.exit != 0 && po.exit != 3 && po.exit != 4 {
		if c := crashLine(po.captured); c != "" {
			po.crash = c
			os.Remove(out)
			os.Remove(capf)
			return po
		}
	}
	if e := readJSON(out, &po.res); e != nil {
		po.err = fmt.Errorf("harness produced no result (exit %d): %v\n--- captured fd 1/2 ---\n%s", po.exit, e, po.captured)
		return po
	}
	if po.res.Error != "" {
		po.err = fmt.Errorf("harness error: %s", po.res.Error)
	}
	if po.exit != 0 && po.exit != 3 && po.err == nil {
		po.err = fmt.Errorf("harness exit code %d\n--- captured fd 1/2 ---\n%s", po.exit, po.captured)
	}
	if !keep {
		os.Remove(out)
		os.Remove(capf)
		matches, _ := filepath.Glob(racef + ".*")
		for _, m := range matches {
			os.Remove(m)
		}
	}
	return po
}

func binFor(b builds, build string) string {
	switch build {
	case "race":
		return b.race
	case "plain":
		return b.plain
	case "ref":
		return b.ref
	}
	fatal("unknown build %q", build)
	return ""
}

// searchOnce tries n seeded schedules (numbers off..off+n-1) of the record's workload in a
// fresh process and reports the first violating one as a scripted record.
func searchOnce(b builds, rec *proto.Record, n, off int) (proto.ProcResult, error) {
	return replayWith(b, rec, "search", "-search", strconv.Itoa(n), "-search-offset", strconv.Itoa(off))
}

// replayOnce executes rec in a fresh process of its build.
func replayOnce(b builds, rec *proto.Record, tag string) (proto.ProcResult, error) {
	return replayWith(b, rec, tag)
}

func replayWith(b builds, rec *proto.Record, tag string, extra ...string) (proto.ProcResult, error) {
	n := atomic.AddInt64(&procCounter, 1)
	p := filepath.Join(scratch, "p")
	os.MkdirAll(p, 0o755)
	path := filepath.Join(p, fmt.Sprintf("rec.%d.%s.json", n, tag))
	writeJSON(path, rec)
	defer os.Remove(path)
	args := append([]string{"replay", "-rec", path, "-build", rec.Build, "-proc", strconv.Itoa(rec.Proc)}, extra...)
	gmp := 1
	if rec.Run.Policy.Kind == "free" || degradedMode {
		args = append(args, "-free")
		gmp = 8
	}
	po := runHarness(binFor(b, rec.Build), gmp, 2*time.Minute, args...)
	if po.crash != "" {
		// the replay killed the process: that is the observation
		out := *rec
		out.Class = "crash"
		out.Violations = []proto.Violation{{Class: "crash", Task: -1, Op: -1, Detail: "the process died while executing the recorded calls: " + po.crash, RaceLog: tail(po.captured, 3000)}}
		return proto.ProcResult{Mode: "replay", Record: &out}, nil
	}
	if po.err != nil {
		return po.res, po.err
	}
	return po.res, nil
}

// sameViolation: the replay shows the same class (for data races: the same pair of top
// library frames, by function).
func sameViolation(want, got *proto.Record) bool {
	for _, g := range got.Violations {
		for _, w := range want.Violations {
			if classKey(g.Class) != classKey(w.Class) {
				continue
			}
			if g.Class != "data_race" {
				return true
			}
			if framePair(w.Frames) == framePair(g.Frames) {
				return true
			}
		}
	}
	return false
}

func framePair(f []string) string {
	a, b := "", ""
	if len(f) > 0 {
		a = f[0]
	}
	if len(f) > 1 {
		b = f[1]
	}
	if a > b {
		a, b = b, a
	}
	return a + " <-> " + b
}

// nondeterministic_result is result_mismatch whose replay is probabilistic
func classKey(c string) string {
	if c == "nondeterministic_result" {
		return "result_mismatch"
	}
	return c
}
