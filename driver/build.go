package main

import (
	"bytes"
	"context"
	"encoding/json"
	"fmt"
	"os"
	"os/exec"
	"path/filepath"
	"strings"
	"sync"
	"time"
)

// machinery problems end the check with exit code 2 (never a VIOLATION line)
func fatal(f string, a ...any) {
	fmt.Printf("MACHINERY-ERROR: "+f+"\n", a...)
	cleanup()
	os.Exit(2)
}

var (
	scratch   string
	verifDir  = "/verif"
	repoDir   = "/repo"
	keep      bool
	cleanOnce sync.Once
)

func cleanup() {
	cleanOnce.Do(func() {
		if scratch != "" && !keep {
			os.RemoveAll(scratch)
		}
	})
}

func goEnv() []string {
	env := os.Environ()
	set := map[string]string{"GOFLAGS": "-mod=mod", "GOPROXY": "off", "GOSUMDB": "off", "GOTOOLCHAIN": "local", "CGO_ENABLED": "1"}
	var out []string
	for _, e := range env {
		k := e[:strings.IndexByte(e, '=')]
		if _, ok := set[k]; ok {
			continue
		}
		out = append(out, e)
	}
	for k, v := range set {
		out = append(out, k+"="+v)
	}
	return out
}

func run(dir string, env []string, timeout time.Duration, name string, args ...string) (string, error) {
	ctx, cancel := context.WithTimeout(context.Background(), timeout)
	defer cancel()
	cmd := exec.CommandContext(ctx, name, args...)
	cmd.Dir = dir
	cmd.Env = env
	var buf bytes.Buffer
	cmd.Stdout = &buf
	cmd.Stderr = &buf
	err := cmd.Run()
	if ctx.Err() != nil {
		return buf.String(), fmt.Errorf("timeout after %v", timeout)
	}
	return buf.String(), err
}

type instrReport struct {
	Module   string   `json:"module"`
	Packages []string `json:"packages"`
	Files    int      `json:"files"`
	Sites    []struct {
		ID   int    `json:"id"`
		File string `json:"file"`
		Kind string `json:"kind"`
		Func string `json:"func"`
	} `json:"sites"`
	NShared       int               `json:"shared_sites"`
	NAPI          int               `json:"api_sites"`
	NPlain        int               `json:"plain_sites"`
	PkgVars       []json.RawMessage `json:"package_level_vars"`
	MapRange      []json.RawMessage `json:"map_range_sites"`
	Unmodelled    []json.RawMessage `json:"unmodelled_constructs"`
	ImportsOfNote []json.RawMessage `json:"imports_of_note"`
	Rewrites      map[string]int    `json:"rewrites"`
	APIFuncs      []string          `json:"api_funcs"`
}

type builds struct {
	ref, plain, race string // harness binaries
	rep              instrReport
}

const harnessGoMod = `module verif

go 1.21

require github.com/github/go-spdx/v2 v2.99.0

replace github.com/github/go-spdx/v2 => ../repo
`

func copyTree(src, dst string) {
	err := filepath.Walk(src, func(p string, info os.FileInfo, err error) error {
		if err != nil {
			return err
		}
		rel, _ := filepath.Rel(src, p)
		if info.IsDir() {
			return os.MkdirAll(filepath.Join(dst, rel), 0o755)
		}
		b, err := os.ReadFile(p)
		if err != nil {
			return err
		}
		return os.WriteFile(filepath.Join(dst, rel), b, 0o644)
	})
	if err != nil {
		fatal("copy %s: %v", src, err)
	}
}

// buildAll copies the CURRENT /repo working tree to the scratch directory (verbatim and
// instrumented), and builds the three harness binaries.
func buildAll() builds {
	env := goEnv()
	bin := filepath.Join(scratch, "bin")
	os.MkdirAll(bin, 0o755)
	instr := filepath.Join(bin, "instr")
	if out, err := run(verifDir, env, 5*time.Minute, "go", "build", "-o", instr, "./instr"); err != nil {
		fatal("building the instrumenter: %v\n%s", err, out)
	}
	var b builds
	repPath := filepath.Join(scratch, "instr_report.json")
	for _, m := range []string{"inst", "ref"} {
		mode := "instr"
		if m == "ref" {
			mode = "plain"
		}
		args := []string{"-repo", repoDir, "-out", filepath.Join(scratch, m, "repo"), "-mode", mode, "-simrt", filepath.Join(verifDir, "simrt")}
		if m == "inst" {
			args = append(args, "-report", repPath)
		}
		if out, err := run(verifDir, env, 2*time.Minute, instr, args...); err != nil {
			fatal("instrumenter (%s) failed on the current tree: %v\n%s", m, err, out)
		}
		h := filepath.Join(scratch, m, "h")
		os.MkdirAll(h, 0o755)
		copyTree(filepath.Join(verifDir, "harness"), filepath.Join(h, "harness"))
		if mp := modulePath(); mp != defaultModule {
			// the tree declares another module path (e.g. a new major version): follow it
			retarget(filepath.Join(h, "harness"), mp)
		}
		copyTree(filepath.Join(verifDir, "proto"), filepath.Join(h, "proto"))
		if sum, err := os.ReadFile(filepath.Join(repoDir, "go.sum")); err == nil {
			os.WriteFile(filepath.Join(h, "go.sum"), sum, 0o644)
		}
		os.WriteFile(filepath.Join(h, "go.mod"), []byte(strings.ReplaceAll(harnessGoMod, defaultModule, modulePath())), 0o644)
	}
	rb, err := os.ReadFile(repPath)
	if err != nil {
		fatal("%v", err)
	}
	if err := json.Unmarshal(rb, &b.rep); err != nil {
		fatal("instrumenter report: %v", err)
	}
	b.ref = filepath.Join(bin, "h_ref")
	b.plain = filepath.Join(bin, "h_plain")
	b.race = filepath.Join(bin, "h_race")
	type job struct {
		dir  string
		args [][]string
	}
	jobs := []job{
		{filepath.Join(scratch, "ref", "h"), [][]string{{"build", "-tags", "simharness", "-o", b.ref, "./harness"}}},
		{filepath.Join(scratch, "inst", "h"), [][]string{{"build", "-tags", "simharness", "-o", b.plain, "./harness"},
			{"build", "-race", "-tags", "simharness", "-o", b.race, "./harness"}}},
	}
	var wg sync.WaitGroup
	errs := make([]string, len(jobs))
	for i, j := range jobs {
		wg.Add(1)
		go func(i int, j job) {
			defer wg.Done()
			for _, a := range j.args {
				if out, err := run(j.dir, env, 15*time.Minute, "go", a...); err != nil {
					errs[i] = fmt.Sprintf("go %s: %v\n%s", strings.Join(a, " "), err, out)
					return
				}
			}
		}(i, j)
	}
	wg.Wait()
	for _, e := range errs {
		if e != "" {
			fatal("build of the harness against the current tree failed (the tree must compile):\n%s", e)
		}
	}
	return b
}

const defaultModule = "github.com/github/go-spdx/v2"

// modulePath reads the module path of the tree under test.
func modulePath() string {
	b, err := os.ReadFile(filepath.Join(repoDir, "go.mod"))
	if err != nil {
		fatal("%v", err)
	}
	for _, l := range strings.Split(string(b), "\n") {
		l = strings.TrimSpace(l)
		if strings.HasPrefix(l, "module ") {
			return strings.Trim(strings.TrimSpace(strings.TrimPrefix(l, "module ")), "\"")
		}
	}
	fatal("no module path in %s/go.mod", repoDir)
	return ""
}

func retarget(dir, mp string) {
	ents, _ := os.ReadDir(dir)
	for _, e := range ents {
		p := filepath.Join(dir, e.Name())
		b, err := os.ReadFile(p)
		if err == nil {
			os.WriteFile(p, []byte(strings.ReplaceAll(string(b), defaultModule, mp)), 0o644)
		}
	}
}
