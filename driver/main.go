// Command driver decides property C13 of github/go-spdx by deterministic simulation:
// it copies and instruments the current /repo working tree, builds the harness three
// times (reference, instrumented, instrumented -race), computes the sequential reference,
// runs seeded simulated runs in many short-lived processes, and turns any violation into
// a minimised replay file.
//
// Exit codes: 0 property held on everything explored; 1 violation (a line
// "VIOLATION property=C13 replay=<path>" is printed); 2 machinery problem.
package main

import (
	"encoding/json"
	"flag"
	"fmt"
	"os"
	"os/signal"
	"path/filepath"
	"runtime"
	"strconv"
	"syscall"
	"time"

	"verif/proto"
)

type tierCfg struct {
	name       string
	corpusSize int
	isoSample  int // number of calls re-run in their own fresh process (-1: all)
	procs      int // sim processes per build
	runs       int // runs per process
	maxStep    int64
	selftest   bool
	procWall   time.Duration
}

var tiers = map[string]tierCfg{
	"quick":    {name: "quick", corpusSize: 6200, isoSample: 200, procs: 128, runs: 250, maxStep: 600000, procWall: 5 * time.Minute},
	"thorough": {name: "thorough", corpusSize: 13000, isoSample: -1, procs: 1500, runs: 800, maxStep: 600000, selftest: true, procWall: 20 * time.Minute},
}

var (
	workers  = runtime.NumCPU()
	seed     uint64
	tStart   = time.Now()
	propID   = "C13"
	evidence = "/verif/evidence/C13.json"
)

func logf(f string, a ...any) {
	fmt.Printf("[%6.1fs] "+f+"\n", append([]any{time.Since(tStart).Seconds()}, a...)...)
}

func main() {
	tier := flag.String("tier", "quick", "quick | thorough")
	replay := flag.String("replay", "", "replay file to re-execute against the current tree")
	selftest := flag.Bool("selftest", false, "determinism self-test only")
	fingerprint := flag.Bool("fingerprint", false, "print the fingerprint of the library sources and exit")
	warm := flag.Bool("warm", false, "only build everything once (warms the Go build cache)")
	modeltest := flag.Bool("modeltest", false, "test the simulator's concurrency model on the synthetic library only")
	seedFlag := flag.String("seed", "", "seed (default: $VERIF_SEED or 1)")
	procs := flag.Int("procs", 0, "override: sim processes per build")
	runs := flag.Int("runs", 0, "override: runs per process")
	flag.BoolVar(&keep, "keep", false, "keep the scratch directory")
	flag.StringVar(&buildsFlag, "builds", "race,plain", "which instrumented builds to simulate (diagnostic)")
	flag.StringVar(&repoDir, "repo", "/repo", "tree under test")
	flag.StringVar(&verifDir, "verif", "/verif", "verification directory")
	flag.StringVar(&evidence, "evidence", "/verif/evidence/C13.json", "evidence file")
	flag.IntVar(&workers, "workers", runtime.NumCPU(), "parallel processes")
	flag.Parse()

	s := *seedFlag
	if s == "" {
		s = os.Getenv("VERIF_SEED")
	}
	if s == "" {
		s = "1"
	}
	v, err := strconv.ParseUint(s, 10, 64)
	if err != nil {
		if iv, err2 := strconv.ParseInt(s, 10, 64); err2 == nil {
			v = uint64(iv)
		} else {
			fmt.Printf("MACHINERY-ERROR: bad seed %q\n", s)
			os.Exit(2)
		}
	}
	seed = v
	if t := os.Getenv("VERIF_TIER"); t != "" && !isFlagSet("tier") {
		*tier = t
	}
	cfg, ok := tiers[*tier]
	if !ok {
		fmt.Printf("MACHINERY-ERROR: unknown tier %q\n", *tier)
		os.Exit(2)
	}
	if cfg.name == "thorough" {
		soakN = 300000
	}
	if *procs > 0 {
		cfg.procs = *procs
	}
	if *runs > 0 {
		cfg.runs = *runs
	}
	if *fingerprint {
		fmt.Println(sourcesFingerprint())
		return
	}
	fmt.Printf("VERIF_SEED=%d property=%s tier=%s workers=%d\n", seed, propID, cfg.name, workers)

	base := os.Getenv("VERIF_SCRATCH")
	if base == "" {
		base = os.TempDir()
	}
	scratch, err = os.MkdirTemp(base, "c13sim-")
	if err != nil {
		fmt.Printf("MACHINERY-ERROR: %v\n", err)
		os.Exit(2)
	}
	sig := make(chan os.Signal, 1)
	signal.Notify(sig, syscall.SIGINT, syscall.SIGTERM)
	go func() {
		<-sig
		cleanup()
		os.Exit(2)
	}()
	defer cleanup()

	b := buildAll()
	logf("built 3 harness binaries from %s: %d packages, %d files, %d yield sites (shared=%d api=%d), map-range sites=%d, unmodelled constructs=%d",
		repoDir, len(b.rep.Packages), b.rep.Files, len(b.rep.Sites), b.rep.NShared, b.rep.NAPI, len(b.rep.MapRange), len(b.rep.Unmodelled))

	code := 0
	switch {
	case *warm:
		modelTestBuildOnly()
		logf("build cache warmed")
	case *modeltest:
		mt := modelTest()
		if !mt.ok {
			fmt.Printf("MODELTEST FAILED: %s\n", mt.detail)
			code = 2
		} else {
			fmt.Println("MODELTEST OK")
		}
	case *replay != "":
		code = doReplay(b, *replay)
	case *selftest:
		code = doSelftest(b, cfg, 30, 30)
	default:
		code = doCheck(b, cfg)
	}
	cleanup()
	os.Exit(code)
}

func isFlagSet(name string) bool {
	set := false
	flag.Visit(func(f *flag.Flag) {
		if f.Name == name {
			set = true
		}
	})
	return set
}

func readJSON(path string, v any) error {
	b, err := os.ReadFile(path)
	if err != nil {
		return err
	}
	return json.Unmarshal(b, v)
}

func writeJSON(path string, v any) {
	b, err := json.MarshalIndent(v, "", " ")
	if err != nil {
		fatal("%v", err)
	}
	os.MkdirAll(filepath.Dir(path), 0o755)
	if err := os.WriteFile(path+".tmp", b, 0o644); err != nil {
		fatal("%v", err)
	}
	if err := os.Rename(path+".tmp", path); err != nil {
		fatal("%v", err)
	}
}

// doReplay re-executes a replay file against the current tree.
func doReplay(b builds, path string) int {
	var rec proto.Record
	if err := readJSON(path, &rec); err != nil {
		fatal("replay file: %v", err)
	}
	tries := 1
	if rec.Class == "data_race" {
		// the schedule replays exactly, the detector does not: about one process in twenty
		// executing the identical event log reports nothing (DESIGN 6.4)
		tries = 8
	}
	if rec.ReplayMode == "probabilistic" {
		tries = 256
	}
	for i := 0; i < tries; i++ {
		res, _ := replayOnce(b, &rec, fmt.Sprintf("replay%d", i))
		if res.Error != "" {
			fatal("replay: %s", res.Error)
		}
		if res.Record != nil && sameViolation(&rec, res.Record) {
			fmt.Printf("replay reproduced class=%s after %d attempt(s)\n", res.Record.Class, i+1)
			for _, v := range res.Record.Violations {
				fmt.Printf("  %s task=%d op=%d %s\n    expected: %s\n    observed: %s\n", v.Class, v.Task, v.Op, v.Detail, v.Expected, v.Observed)
				for _, f := range v.Frames {
					fmt.Printf("    frame: %s\n", f)
				}
			}
			fmt.Printf("VIOLATION property=%s replay=%s\n", propID, path)
			return 1
		}
	}
	fmt.Printf("replay did NOT reproduce the violation on the current tree (%d attempt(s))\n", tries)
	return 0
}
