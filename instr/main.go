// Command instr copies the library packages of a Go module into a scratch directory and
// (in -mode=instr) splices simulator yield points in front of every statement, rewrites
// blocking sync primitives to their simulated wrappers, and reports what it found
// (shared-state sites, map ranges, constructs the simulator has no model for).
//
// It never writes to the source tree.
package main

import (
	"encoding/json"
	"flag"
	"fmt"
	"go/ast"
	"go/build"
	"go/importer"
	"go/parser"
	"go/token"
	"go/types"
	"os"
	"path/filepath"
	"sort"
	"strings"
)

type Site struct {
	ID   int    `json:"id"`
	File string `json:"file"`
	Line int    `json:"line"`
	Kind string `json:"kind"`
	Func string `json:"func"`
}

type Note struct {
	What string `json:"what"`
	Pos  string `json:"pos"`
}

type Report struct {
	Module        string         `json:"module"`
	Packages      []string       `json:"packages"`
	Files         int            `json:"files"`
	Sites         []Site         `json:"sites"`
	NShared       int            `json:"shared_sites"`
	NAPI          int            `json:"api_sites"`
	NPlain        int            `json:"plain_sites"`
	PkgVars       []Note         `json:"package_level_vars"`
	MapRange      []Note         `json:"map_range_sites"`
	Unmodelled    []Note         `json:"unmodelled_constructs"`
	ImportsOfNote []Note         `json:"imports_of_note"`
	Rewrites      map[string]int `json:"rewrites"`
	Modelled      map[string]int `json:"modelled_concurrency_constructs"`
	APIFuncs      []string       `json:"api_funcs"`
	TypeErrors    []string       `json:"type_errors"`
}

type edit struct {
	off, del int
	text     string
	ord      int
}

type pkgInfo struct {
	path  string // import path
	dir   string // source dir
	rel   string // dir relative to module root
	bp    *build.Package
	files []*ast.File
	names []string
	tpkg  *types.Package
	info  *types.Info
}

var (
	fset    = token.NewFileSet()
	pkgs    = map[string]*pkgInfo{}
	modPath string
	repo    string
	stdImp  types.Importer
	rep     Report
)

type chainImporter struct{}

func (chainImporter) Import(path string) (*types.Package, error) {
	if p, ok := pkgs[path]; ok {
		if p.tpkg == nil {
			if err := check(p); err != nil {
				return nil, err
			}
		}
		return p.tpkg, nil
	}
	return stdImp.Import(path)
}

func fatal(f string, a ...any) {
	fmt.Fprintf(os.Stderr, "instr: "+f+"\n", a...)
	os.Exit(2)
}

func load(path string) *pkgInfo {
	if p, ok := pkgs[path]; ok {
		return p
	}
	rel := strings.TrimPrefix(strings.TrimPrefix(path, modPath), "/")
	dir := filepath.Join(repo, rel)
	bp, err := build.ImportDir(dir, 0)
	if err != nil {
		fatal("import %s: %v", dir, err)
	}
	p := &pkgInfo{path: path, dir: dir, rel: rel, bp: bp}
	pkgs[path] = p
	names := append([]string{}, bp.GoFiles...)
	sort.Strings(names)
	for _, n := range names {
		f, err := parser.ParseFile(fset, filepath.Join(dir, n), nil, parser.ParseComments)
		if err != nil {
			fatal("parse: %v", err)
		}
		p.files = append(p.files, f)
		p.names = append(p.names, n)
	}
	for _, imp := range bp.Imports {
		if imp == modPath || strings.HasPrefix(imp, modPath+"/") {
			load(imp)
		}
	}
	return p
}

func check(p *pkgInfo) error {
	p.info = &types.Info{
		Types:      map[ast.Expr]types.TypeAndValue{},
		Uses:       map[*ast.Ident]types.Object{},
		Defs:       map[*ast.Ident]types.Object{},
		Selections: map[*ast.SelectorExpr]*types.Selection{},
		Instances:  map[*ast.Ident]types.Instance{},
	}
	// type errors are tolerated (the Go build decides whether the tree compiles; an
	// import the source importer cannot resolve only degrades the site classification)
	conf := types.Config{Importer: chainImporter{}, Error: func(err error) {
		if len(rep.TypeErrors) < 20 {
			rep.TypeErrors = append(rep.TypeErrors, err.Error())
		}
	}}
	tp, _ := conf.Check(p.path, fset, p.files, p.info)
	p.tpkg = tp
	if tp == nil {
		return fmt.Errorf("type-check %s produced no package", p.path)
	}
	return nil
}

func main() {
	var out, mode, simrtDir, roots, reportPath string
	flag.StringVar(&repo, "repo", "/repo", "module root of the library under test")
	flag.StringVar(&out, "out", "", "output directory (module copy)")
	flag.StringVar(&mode, "mode", "instr", "instr | plain")
	flag.StringVar(&simrtDir, "simrt", "", "directory with the simrt sources")
	flag.StringVar(&roots, "roots", "spdxexp,spdxexp/spdxlicenses", "root packages (relative to the module)")
	flag.StringVar(&reportPath, "report", "", "where to write the JSON report")
	flag.Parse()
	if out == "" || simrtDir == "" {
		fatal("need -out and -simrt")
	}
	gomod, err := os.ReadFile(filepath.Join(repo, "go.mod"))
	if err != nil {
		fatal("%v", err)
	}
	for _, l := range strings.Split(string(gomod), "\n") {
		l = strings.TrimSpace(l)
		if strings.HasPrefix(l, "module ") {
			modPath = strings.Trim(strings.TrimSpace(strings.TrimPrefix(l, "module ")), "\"")
		}
	}
	if modPath == "" {
		fatal("no module path in go.mod")
	}
	rep.Module = modPath
	rep.Rewrites = map[string]int{}
	rep.Modelled = map[string]int{}
	stdImp = importer.ForCompiler(fset, "source", nil)
	for _, r := range strings.Split(roots, ",") {
		load(modPath + "/" + r)
	}
	var paths []string
	for p := range pkgs {
		paths = append(paths, p)
	}
	sort.Strings(paths)
	rep.Packages = paths
	for _, p := range paths {
		if pkgs[p].tpkg == nil {
			if err := check(pkgs[p]); err != nil {
				fatal("%v", err)
			}
		}
	}
	// copy module files
	must(os.MkdirAll(out, 0o755))
	copyFile(filepath.Join(repo, "go.mod"), filepath.Join(out, "go.mod"))
	if _, err := os.Stat(filepath.Join(repo, "go.sum")); err == nil {
		copyFile(filepath.Join(repo, "go.sum"), filepath.Join(out, "go.sum"))
	}
	simImport := modPath + "/zz_simrt"
	for _, pp := range paths {
		p := pkgs[pp]
		dst := filepath.Join(out, p.rel)
		must(os.MkdirAll(dst, 0o755))
		ents, err := os.ReadDir(p.dir)
		must(err)
		instrumented := map[string][]byte{}
		for i, f := range p.files {
			rep.Files++
			src, err := os.ReadFile(filepath.Join(p.dir, p.names[i]))
			must(err)
			analyse(p, f, p.names[i])
			if mode == "instr" {
				instrumented[p.names[i]] = instrument(p, f, src, simImport)
			}
		}
		for _, e := range ents {
			if e.IsDir() {
				// data directories (//go:embed data/*): copied as they are, unless they
				// are Go packages of their own
				if _, isPkg := pkgs[modPath+"/"+filepath.ToSlash(filepath.Join(p.rel, e.Name()))]; !isPkg && !hasGoFiles(filepath.Join(p.dir, e.Name())) && e.Name() != ".git" {
					copyTree(filepath.Join(p.dir, e.Name()), filepath.Join(dst, e.Name()))
				}
				continue
			}
			if strings.HasSuffix(e.Name(), "_test.go") {
				continue
			}
			if b, ok := instrumented[e.Name()]; ok {
				must(os.WriteFile(filepath.Join(dst, e.Name()), b, 0o644))
			} else {
				copyFile(filepath.Join(p.dir, e.Name()), filepath.Join(dst, e.Name()))
			}
		}
	}
	// simrt
	sdst := filepath.Join(out, "zz_simrt")
	must(os.MkdirAll(sdst, 0o755))
	ents, err := os.ReadDir(simrtDir)
	must(err)
	for _, e := range ents {
		if strings.HasSuffix(e.Name(), ".go") && !strings.HasSuffix(e.Name(), "_test.go") {
			copyFile(filepath.Join(simrtDir, e.Name()), filepath.Join(sdst, e.Name()))
		}
	}
	n := 0
	if mode == "instr" {
		n = len(rep.Sites)
	}
	must(os.WriteFile(filepath.Join(sdst, "zz_sites.go"),
		[]byte(fmt.Sprintf("package simrt\n\nconst NumSites = %d\nconst Instrumented = %v\n\nfunc init() { RegisterSites(NumSites) }\n", n, mode == "instr")), 0o644))
	for _, s := range rep.Sites {
		switch s.Kind {
		case "shared":
			rep.NShared++
		case "api":
			rep.NAPI++
		default:
			rep.NPlain++
		}
	}
	if reportPath != "" {
		b, _ := json.MarshalIndent(rep, "", " ")
		must(os.WriteFile(reportPath, b, 0o644))
	}
}

func must(err error) {
	if err != nil {
		fatal("%v", err)
	}
}

func hasGoFiles(dir string) bool {
	found := false
	filepath.WalkDir(dir, func(path string, d os.DirEntry, err error) error {
		if err == nil && !d.IsDir() && strings.HasSuffix(path, ".go") {
			found = true
		}
		return nil
	})
	return found
}

func copyTree(a, b string) {
	n := 0
	filepath.WalkDir(a, func(path string, d os.DirEntry, err error) error {
		if err != nil {
			return nil
		}
		rel, _ := filepath.Rel(a, path)
		if d.IsDir() {
			must(os.MkdirAll(filepath.Join(b, rel), 0o755))
			return nil
		}
		if n++; n > 5000 {
			return filepath.SkipAll
		}
		if info, e := d.Info(); e == nil && info.Mode().IsRegular() && info.Size() < 64<<20 {
			copyFile(path, filepath.Join(b, rel))
		}
		return nil
	})
}

func copyFile(a, b string) {
	d, err := os.ReadFile(a)
	must(err)
	must(os.WriteFile(b, d, 0o644))
}

func pos(p token.Pos) string {
	ps := fset.Position(p)
	rel, err := filepath.Rel(repo, ps.Filename)
	if err != nil {
		rel = ps.Filename
	}
	return fmt.Sprintf("%s:%d", rel, ps.Line)
}

func inModule(p *types.Package) bool {
	if p == nil {
		return false
	}
	_, ok := pkgs[p.Path()]
	return ok
}

var noteImports = map[string]bool{"time": true, "os": true, "io": true, "net": true, "net/http": true, "math/rand": true, "math/rand/v2": true,
	"unsafe": true, "C": true, "os/signal": true, "runtime": true, "log": true, "crypto/rand": true, "context": true, "weak": true, "unique": true, "runtime/debug": true}

// analyse collects package-level facts of one file (independent of mode).
func analyse(p *pkgInfo, f *ast.File, name string) {
	chanOps := 0
	feeds := ""
	defer func() {
		// a channel that real (non-simulated) code may feed - timers, contexts, signals -
		// cannot be modelled: its counterpart is not a simulated task
		if chanOps > 0 && feeds != "" {
			rep.Unmodelled = append(rep.Unmodelled, Note{"channel operations in a file that imports " + feeds, name})
		}
	}()
	for _, is := range f.Imports {
		ip := strings.Trim(is.Path.Value, "\"")
		if ip == "context" || ip == "os/signal" {
			feeds = ip
		}
		if is.Name != nil && is.Name.Name == "." && (ip == "sync" || ip == "time" || ip == "runtime" || ip == "sync/atomic") {
			rep.Unmodelled = append(rep.Unmodelled, Note{"dot-import of " + ip + " (its functions appear as plain identifiers)", pos(is.Pos())})
		}
		if noteImports[ip] {
			rep.ImportsOfNote = append(rep.ImportsOfNote, Note{ip, pos(is.Pos())})
		}
		if first := strings.Split(ip, "/")[0]; strings.Contains(first, ".") && ip != modPath && !strings.HasPrefix(ip, modPath+"/") {
			// third-party code runs uninstrumented and may block or share state on its own
			rep.Unmodelled = append(rep.Unmodelled, Note{"import of third-party package " + ip, pos(is.Pos())})
		}
	}
	for _, d := range f.Decls {
		if gd, ok := d.(*ast.GenDecl); ok && gd.Tok == token.VAR {
			for _, s := range gd.Specs {
				for _, n := range s.(*ast.ValueSpec).Names {
					if n.Name != "_" {
						rep.PkgVars = append(rep.PkgVars, Note{p.tpkg.Name() + "." + n.Name, pos(n.Pos())})
					}
				}
			}
		}
	}
	called := map[*ast.SelectorExpr]bool{}
	ast.Inspect(f, func(n ast.Node) bool {
		if c, ok := n.(*ast.CallExpr); ok {
			if sel, ok := unparen(c.Fun).(*ast.SelectorExpr); ok {
				called[sel] = true
			}
		}
		return true
	})
	for _, d := range f.Decls {
		// `go x.Wait()` / `defer`-less method values: the call inside a go statement is a
		// CallExpr too, but it is replaced textually by the go-call rewrite and would end up
		// calling the real blocking method
		ast.Inspect(d, func(n ast.Node) bool {
			if g, ok := n.(*ast.GoStmt); ok {
				if sel, ok := unparen(g.Call.Fun).(*ast.SelectorExpr); ok {
					delete(called, sel)
				}
			}
			return true
		})
	}
	ast.Inspect(f, func(n ast.Node) bool {
		if ls, ok := n.(*ast.LabeledStmt); ok {
			if sel, ok := ls.Stmt.(*ast.SelectStmt); ok {
				labelledSelect[sel] = true
			}
		}
		return true
	})
	ast.Inspect(f, func(n ast.Node) bool {
		switch x := n.(type) {
		case *ast.GoStmt:
			if _, ok := x.Call.Fun.(*ast.FuncLit); ok {
				rep.Modelled["go func literal"]++
			} else if goCallRewritable(p, x) {
				rep.Modelled["go call"]++
			} else {
				rep.Unmodelled = append(rep.Unmodelled, Note{"go statement that cannot be rewritten (builtin, conversion, generic function, function literal or multi-value call among the arguments)", pos(x.Pos())})
			}
		case *ast.SendStmt:
			rep.Modelled["channel send"]++
			chanOps++
		case *ast.SelectStmt:
			if selectRewritable(x) {
				rep.Modelled["select"]++
				chanOps++
			} else {
				rep.Unmodelled = append(rep.Unmodelled, Note{"select without cases or with more than 16 cases", pos(x.Pos())})
			}
		case *ast.UnaryExpr:
			if x.Op == token.ARROW {
				rep.Modelled["channel receive"]++
				chanOps++
			}
		case *ast.RangeStmt:
			if tv, ok := p.info.Types[x.X]; ok && tv.Type != nil {
				switch tv.Type.Underlying().(type) {
				case *types.Map:
					rep.MapRange = append(rep.MapRange, Note{"range over map", pos(x.Pos())})
				case *types.Chan:
					rep.Modelled["range over channel"]++
					chanOps++
				}
			}
		case *ast.SelectorExpr:
			if obj, ok := p.info.Uses[x.Sel]; ok && obj.Pkg() != nil {
				full := ""
				if fn, ok := obj.(*types.Func); ok {
					full = fn.FullName()
				} else if tn, ok := obj.(*types.TypeName); ok {
					full = tn.Pkg().Path() + "." + tn.Name()
				}
				switch full {
				case "(*sync.Mutex).Lock", "(*sync.RWMutex).Lock", "(*sync.RWMutex).RLock", "(*sync.Once).Do", "(*sync.WaitGroup).Wait",
					"(*sync.WaitGroup).Add", "(*sync.WaitGroup).Done", "(*time.Timer).Stop", "(*time.Timer).Reset", "(*time.Ticker).Stop", "(*time.Ticker).Reset":
					if !called[x] {
						rep.Unmodelled = append(rep.Unmodelled, Note{"method value of " + full + " (not a direct call)", pos(x.Pos())})
					}
				}
				switch full {
				case "(*sync.Cond).Wait", "(*sync.Cond).Signal", "(*sync.Cond).Broadcast":
					if !called[x] {
						rep.Unmodelled = append(rep.Unmodelled, Note{"method value of " + full + " (not a direct call)", pos(x.Pos())})
					}
				}
				switch {
				case
					full == "runtime.SetFinalizer",
					strings.HasPrefix(full, "(*golang.org/x/sync"):
					rep.Unmodelled = append(rep.Unmodelled, Note{full, pos(x.Pos())})
				}
			}
		}
		return true
	})
}

// instrument returns the rewritten source of one file.
func instrument(p *pkgInfo, f *ast.File, src []byte, simImport string) []byte {
	tf := fset.File(f.Pos())
	off := func(ps token.Pos) int { return tf.Offset(ps) }
	var edits []edit
	ord := 0
	add := func(o, del int, text string) {
		edits = append(edits, edit{o, del, text, ord})
		ord++
	}
	syncAlias := ""
	timeAlias := ""
	runtimeAlias := ""
	for _, is := range f.Imports {
		if strings.Trim(is.Path.Value, "\"") == "sync" {
			syncAlias = "sync"
			if is.Name != nil {
				syncAlias = is.Name.Name
			}
		}
		if strings.Trim(is.Path.Value, "\"") == "runtime" {
			runtimeAlias = "runtime"
			if is.Name != nil {
				runtimeAlias = is.Name.Name
			}
		}
		if strings.Trim(is.Path.Value, "\"") == "time" {
			timeAlias = "time"
			if is.Name != nil {
				timeAlias = is.Name.Name
			}
		}
	}
	usedSim := false
	rewroteSyncFunc := false
	rewroteTime := false
	rewroteRuntime := false
	commaOK := map[*ast.UnaryExpr]bool{}
	calledSel := map[*ast.SelectorExpr]bool{}
	parent := map[ast.Node]ast.Node{}
	{
		var stack []ast.Node
		ast.Inspect(f, func(n ast.Node) bool {
			if n == nil {
				stack = stack[:len(stack)-1]
				return true
			}
			if len(stack) > 0 {
				parent[n] = stack[len(stack)-1]
			}
			stack = append(stack, n)
			return true
		})
	}

	// is this statement "shared"? (shallow: nested blocks and function literals excluded)
	var shallowShared func(n ast.Node) bool
	shallowShared = func(n ast.Node) bool {
		found := false
		var visit func(n ast.Node) bool
		visit = func(n ast.Node) bool {
			if found || n == nil {
				return false
			}
			switch x := n.(type) {
			case *ast.BlockStmt, *ast.FuncLit, *ast.CaseClause, *ast.CommClause:
				return false
			case *ast.Ident:
				if obj, ok := p.info.Uses[x]; ok {
					switch o := obj.(type) {
					case *types.Var:
						if !o.IsField() && o.Pkg() != nil && o.Parent() == o.Pkg().Scope() && inModule(o.Pkg()) {
							found = true
						}
					case *types.Func:
						if o.Pkg() != nil && (o.Pkg().Path() == "sync" || o.Pkg().Path() == "sync/atomic") {
							found = true
						}
					}
				}
			}
			return true
		}
		switch x := n.(type) {
		case *ast.IfStmt:
			ast.Inspect(x.Init, visit)
			ast.Inspect(x.Cond, visit)
		case *ast.ForStmt:
			ast.Inspect(x.Init, visit)
			ast.Inspect(x.Cond, visit)
			ast.Inspect(x.Post, visit)
		case *ast.RangeStmt:
			ast.Inspect(x.X, visit)
		case *ast.SwitchStmt:
			ast.Inspect(x.Init, visit)
			ast.Inspect(x.Tag, visit)
		case *ast.TypeSwitchStmt:
			ast.Inspect(x.Init, visit)
			ast.Inspect(x.Assign, visit)
		case *ast.SelectStmt, *ast.BlockStmt:
		case *ast.LabeledStmt:
			return shallowShared(x.Stmt)
		default:
			ast.Inspect(n, visit)
		}
		return found
	}

	var doList func(list []ast.Stmt, fn string, api bool, first *bool)
	var walk func(n ast.Node, fn string, api bool, first *bool)
	// render returns the source text of an expression with the rewrites of everything
	// inside it applied (used where a whole region is replaced: select and range headers),
	// so that `case <-time.After(d):` or `for range time.Tick(d)` get the simulated timers
	render := func(n ast.Node, fn string) string {
		saved := edits
		edits = nil
		f2 := false
		walk(n, fn, false, &f2)
		local := edits
		edits = saved
		base := off(n.Pos())
		sort.SliceStable(local, func(i, j int) bool {
			if local[i].off != local[j].off {
				return local[i].off < local[j].off
			}
			if (local[i].del == 0) != (local[j].del == 0) {
				return local[i].del == 0
			}
			return local[i].ord < local[j].ord
		})
		var b strings.Builder
		cur := base
		for _, e := range local {
			if e.off < cur || e.off+e.del > off(n.End()) {
				fatal("render: edit outside of the expression in %s", tf.Name())
			}
			b.Write(src[cur:e.off])
			b.WriteString(e.text)
			cur = e.off + e.del
		}
		b.Write(src[cur:off(n.End())])
		return b.String()
	}
	emit := func(s ast.Stmt, fn string, api bool, first *bool) {
		kind := "plain"
		if shallowShared(s) {
			kind = "shared"
		} else if api {
			if *first {
				kind = "api"
			} else if _, ok := s.(*ast.ReturnStmt); ok {
				kind = "api"
			}
		}
		*first = false
		id := len(rep.Sites) + 1
		rep.Sites = append(rep.Sites, Site{ID: id, File: pos(s.Pos()), Line: fset.Position(s.Pos()).Line, Kind: kind, Func: fn})
		call := "Y"
		if kind == "shared" {
			call = "YS"
		} else if kind == "api" {
			call = "YA"
		}
		add(off(s.Pos()), 0, fmt.Sprintf("zzsim.%s(%d); ", call, id))
		usedSim = true
	}
	doList = func(list []ast.Stmt, fn string, api bool, first *bool) {
		for _, s := range list {
			emit(s, fn, api, first)
			walk(s, fn, api, first)
		}
	}
	walk = func(n ast.Node, fn string, api bool, first *bool) {
		ast.Inspect(n, func(m ast.Node) bool {
			switch x := m.(type) {
			case *ast.FuncLit:
				f2 := true
				doList(x.Body.List, fn+".func", false, &f2)
				return false
			case *ast.SwitchStmt:
				if x.Init != nil {
					walk(x.Init, fn, api, first)
				}
				if x.Tag != nil {
					walk(x.Tag, fn, api, first)
				}
				for _, cl := range x.Body.List {
					walk(cl, fn, api, first)
				}
				return false
			case *ast.TypeSwitchStmt:
				if x.Init != nil {
					walk(x.Init, fn, api, first)
				}
				walk(x.Assign, fn, api, first)
				for _, cl := range x.Body.List {
					walk(cl, fn, api, first)
				}
				return false
			case *ast.SelectStmt:
				if selectRewritable(x) {
					txt := func(e ast.Node) string { return render(e, fn) }
					hasDefault := "false"
					var cases []string
					var hoist []string
					idx := 0
					for _, c := range x.Body.List {
						cl := c.(*ast.CommClause)
						hdr := ""
						if cl.Comm == nil {
							hasDefault = "true"
							hdr = "default: _, _ = zzv, zzok; "
						} else {
							assign := ""
							switch cm := cl.Comm.(type) {
							case *ast.SendStmt:
								cases = append(cases, "zzsim.SendCaseTo("+txt(cm.Chan)+").V("+txt(cm.Value)+")")
							case *ast.ExprStmt:
								u := unparen(cm.X).(*ast.UnaryExpr)
								cases = append(cases, "zzsim.RecvCase("+txt(u.X)+")")
							case *ast.AssignStmt:
								u := unparen(cm.Rhs[0]).(*ast.UnaryExpr)
								ch := txt(u.X)
								if hasCall(u.X) {
									// evaluated once, before the select, as Go does (the value is needed twice)
									tmp := fmt.Sprintf("zzc%d", idx)
									hoist = append(hoist, tmp+" := "+ch)
									ch = tmp
								}
								cases = append(cases, "zzsim.RecvCase("+ch+")")
								tok := cm.Tok.String()
								if len(cm.Lhs) == 2 {
									assign = txt(cm.Lhs[0]) + ", " + txt(cm.Lhs[1]) + " " + tok + " zzsim.As(" + ch + ", zzv), zzok; "
								} else {
									assign = txt(cm.Lhs[0]) + " " + tok + " zzsim.As(" + ch + ", zzv); "
								}
							}
							hdr = fmt.Sprintf("case %d: _, _ = zzv, zzok; %s", idx, assign)
							idx++
						}
						add(off(cl.Case), off(cl.Colon)+1-off(cl.Case), hdr)
					}
					pre := ""
					if len(hoist) > 0 {
						pre = "{ " + strings.Join(hoist, "; ") + "; "
						add(off(x.Body.Rbrace)+1, 0, " }")
					}
					add(off(x.Select), off(x.Body.Lbrace)+1-off(x.Select),
						pre+"switch zzi, zzv, zzok := zzsim.Select("+hasDefault+strings.Join(append([]string{""}, cases...), ", ")+"); zzi {")
					if hasDefault == "false" {
						// keeps a select whose cases all return a terminating statement
						add(off(x.Body.Rbrace), 0, "default: panic(\"zzsim: select returned no case\") ")
					}
					rep.Rewrites["select"]++
				}
				for _, cl := range x.Body.List {
					walk(cl, fn, api, first)
				}
				return false
			case *ast.ForStmt:
				if len(x.Body.List) == 0 {
					// `for !ready.Load() {}`: without a yield point the spinning task would
					// never let anybody else run
					kind, call := "plain", "Y"
					if shallowShared(x) {
						kind, call = "shared", "YS"
					}
					id := len(rep.Sites) + 1
					rep.Sites = append(rep.Sites, Site{ID: id, File: pos(x.Body.Lbrace), Line: fset.Position(x.Body.Lbrace).Line, Kind: kind, Func: fn})
					// ... and it yields voluntarily: a busy-wait makes no progress by itself
					add(off(x.Body.Lbrace)+1, 0, fmt.Sprintf(" zzsim.%s(%d); zzsim.Gosched() ", call, id))
					usedSim = true
				}
			case *ast.BlockStmt:
				doList(x.List, fn, api, first)
				return false
			case *ast.CaseClause:
				for _, e := range x.List {
					walk(e, fn, api, first)
				}
				doList(x.Body, fn, api, first)
				return false
			case *ast.CommClause:
				doList(x.Body, fn, api, first)
				return false
			case *ast.CallExpr:
				{
					fun := unparen(x.Fun)
					if ix, ok := fun.(*ast.IndexExpr); ok {
						fun = ix.X
					}
					if sel, ok := fun.(*ast.SelectorExpr); ok {
						calledSel[sel] = true
					}
				}
				replacedFun := rewriteCall(p, x, off, src, add, &usedSim, &rewroteSyncFunc, &rewroteTime, &rewroteRuntime, func(n ast.Node) string { return render(n, fn) })
				// an atomic load that is an operand of a larger expression - n.Store(n.Load()+1),
				// if a.Load() < b.Load() - gets a yield point right after it: race-free
				// read-modify-write sequences inside ONE statement can be torn too
				if isAtomicLoad(p, x) {
					pn := parent[x]
					for {
						if pe, ok := pn.(*ast.ParenExpr); ok {
							pn = parent[pe]
							continue
						}
						break
					}
					nested := false
					switch pp := pn.(type) {
					case *ast.BinaryExpr:
						nested = true
					case *ast.CallExpr:
						for _, a := range pp.Args {
							if unparen(a) == ast.Expr(x) {
								nested = true
							}
						}
					}
					if nested {
						id := len(rep.Sites) + 1
						rep.Sites = append(rep.Sites, Site{ID: id, File: pos(x.Pos()), Line: fset.Position(x.Pos()).Line, Kind: "shared", Func: fn})
						add(off(x.Pos()), 0, fmt.Sprintf("zzsim.YV(%d, ", id))
						add(off(x.End()), 0, ")")
						rep.Rewrites["yield after nested atomic load"]++
						usedSim = true
					}
				}
				if replacedFun {
					for _, a := range x.Args {
						walk(a, fn, api, first)
					}
					return false
				}
			case *ast.SelectorExpr:
				// package-level functions of time / runtime used as VALUES (`var now = time.Now`,
				// `sleep: time.Sleep`): the simulator's functions have the same signatures
				if !calledSel[x] {
					if obj, ok := p.info.Uses[x.Sel].(*types.Func); ok && obj.Pkg() != nil {
						switch obj.FullName() {
						case "time.Now", "time.Since", "time.Until", "time.Sleep", "time.After", "time.Tick", "time.NewTimer", "time.NewTicker", "time.AfterFunc":
							add(off(x.Pos()), off(x.End())-off(x.Pos()), "zzsim."+x.Sel.Name)
							rep.Rewrites[obj.FullName()+" (value)"]++
							usedSim = true
							rewroteTime = true
							return false
						case "runtime.GOMAXPROCS", "runtime.NumCPU", "runtime.Gosched":
							add(off(x.Pos()), off(x.End())-off(x.Pos()), "zzsim."+x.Sel.Name)
							rep.Rewrites[obj.FullName()+" (value)"]++
							usedSim = true
							rewroteRuntime = true
							return false
						}
					}
				}
			case *ast.GoStmt:
				if fl, ok := x.Call.Fun.(*ast.FuncLit); ok {
					add(off(x.Pos()), 0, "{ zzT := zzsim.TaskNew(); ")
					add(off(fl.Body.Lbrace)+1, 0, " zzsim.TaskEnter(zzT); defer zzsim.TaskExit(zzT); ")
					add(off(x.End()), 0, " }")
					rep.Rewrites["go func literal"]++
				} else if goCallRewritable(p, x) {
					// go f(a, b)  ->  { t := TaskNew(); zzf, zza0, zza1 := f, a, b; go func() { TaskEnter(t); defer TaskExit(t); zzf(zza0, zza1) }() }
					// the function value and the arguments are still evaluated at the go
					// statement (short variable declarations need no type text); constants and
					// nil are passed through textually so that they keep their untyped nature
					txt := func(e ast.Node) string { return render(e, fn) }
					lhs := []string{"zzf"}
					rhs := []string{txt(x.Call.Fun)}
					var args []string
					for i, a := range x.Call.Args {
						tv, ok := p.info.Types[a]
						if ok && (tv.Value != nil || tv.IsNil()) {
							args = append(args, txt(a))
							continue
						}
						v := fmt.Sprintf("zza%d", i)
						lhs = append(lhs, v)
						rhs = append(rhs, txt(a))
						args = append(args, v)
					}
					ell := ""
					if x.Call.Ellipsis.IsValid() {
						ell = "..."
					}
					add(off(x.Pos()), off(x.End())-off(x.Pos()),
						"{ zzT := zzsim.TaskNew(); "+strings.Join(lhs, ", ")+" := "+strings.Join(rhs, ", ")+
							"; go func() { zzsim.TaskEnter(zzT); defer zzsim.TaskExit(zzT); zzf("+strings.Join(args, ", ")+ell+") }() }")
					rep.Rewrites["go call"]++
					return false
				}
			case *ast.SendStmt:
				add(off(x.Chan.Pos()), 0, "zzsim.SendTo(")
				add(off(x.Chan.End()), off(x.Value.Pos())-off(x.Chan.End()), ").V(")
				add(off(x.Value.End()), 0, ")")
				rep.Rewrites["chan send"]++
			case *ast.AssignStmt:
				if len(x.Lhs) == 2 && len(x.Rhs) == 1 {
					if u, ok := unparen(x.Rhs[0]).(*ast.UnaryExpr); ok && u.Op == token.ARROW {
						commaOK[u] = true
					}
				}
			case *ast.ValueSpec:
				if len(x.Names) == 2 && len(x.Values) == 1 {
					if u, ok := unparen(x.Values[0]).(*ast.UnaryExpr); ok && u.Op == token.ARROW {
						commaOK[u] = true
					}
				}
			case *ast.UnaryExpr:
				if x.Op == token.ARROW {
					name := "Recv"
					if commaOK[x] {
						name = "Recv2"
					}
					add(off(x.OpPos), off(x.X.Pos())-off(x.OpPos), "zzsim."+name+"(")
					add(off(x.X.End()), 0, ")")
					rep.Rewrites["chan receive"]++
				}
			case *ast.RangeStmt:
				if tv, ok := p.info.Types[x.X]; ok && tv.Type != nil {
					if _, isChan := tv.Type.Underlying().(*types.Chan); isChan {
						ch := render(x.X, fn)
						// for k, zzok, zzch := RecvFirst(expr); zzok; k, zzok = Recv2(zzch) { body }
						// - the range expression is evaluated once, `continue` runs the post
						// statement, and the loop variable is the language's own (one per loop under
						// go <= 1.21, one per iteration from go 1.22 on), so `j := j` in the body and
						// the classic closure-capture bug both behave as in the original
						hdr, pre := "", ""
						switch {
						case x.Key == nil:
							hdr = " _, zzok, zzch := zzsim.RecvFirst(" + ch + "); zzok; _, zzok = zzsim.Recv2(zzch) {"
						case x.Tok == token.DEFINE:
							k := string(src[off(x.Key.Pos()):off(x.Key.End())])
							hdr = " " + k + ", zzok, zzch := zzsim.RecvFirst(" + ch + "); zzok; " + k + ", zzok = zzsim.Recv2(zzch) {"
						default:
							k := string(src[off(x.Key.Pos()):off(x.Key.End())])
							hdr = " zzv0, zzok, zzch := zzsim.RecvFirst(" + ch + "); zzok; zzv0, zzok = zzsim.Recv2(zzch) {"
							pre = " " + k + " = zzv0; "
						}
						add(off(x.For)+3, off(x.Body.Lbrace)+1-(off(x.For)+3), hdr+pre)
						rep.Rewrites["range over chan"]++
						// only the body is walked further (the header text was replaced)
						doList(x.Body.List, fn, api, first)
						return false
					}
				}
			}
			return true
		})
	}
	for _, d := range f.Decls {
		switch x := d.(type) {
		case *ast.FuncDecl:
			if x.Body == nil {
				continue
			}
			name := x.Name.Name
			api := ast.IsExported(name)
			if x.Recv != nil && len(x.Recv.List) == 1 {
				t := x.Recv.List[0].Type
				if st, ok := t.(*ast.StarExpr); ok {
					t = st.X
				}
				if ix, ok := t.(*ast.IndexExpr); ok {
					t = ix.X
				}
				if id, ok := t.(*ast.Ident); ok {
					name = id.Name + "." + name
					api = api && ast.IsExported(id.Name)
				}
			}
			if api {
				rep.APIFuncs = append(rep.APIFuncs, p.tpkg.Name()+"."+name)
			}
			first := true
			doList(x.Body.List, p.tpkg.Name()+"."+name, api, &first)
		case *ast.GenDecl:
			// function literals in package-level initialisers
			f2 := true
			walk(x, p.tpkg.Name()+".init", false, &f2)
		}
	}
	if len(edits) == 0 {
		return src
	}
	// import on the package line
	add(off(f.Name.End()), 0, fmt.Sprintf("; import zzsim %q", simImport))
	sort.SliceStable(edits, func(i, j int) bool {
		if edits[i].off != edits[j].off {
			return edits[i].off < edits[j].off
		}
		if (edits[i].del == 0) != (edits[j].del == 0) {
			return edits[i].del == 0
		}
		return edits[i].ord < edits[j].ord
	})
	var b strings.Builder
	cur := 0
	for _, e := range edits {
		if e.off < cur {
			fatal("overlapping edits in %s", tf.Name())
		}
		b.Write(src[cur:e.off])
		b.WriteString(e.text)
		cur = e.off + e.del
	}
	b.Write(src[cur:])
	if rewroteSyncFunc && syncAlias != "" && syncAlias != "_" && syncAlias != "." {
		b.WriteString("\nvar _ " + syncAlias + ".Once\n")
	}
	if rewroteRuntime && runtimeAlias != "" && runtimeAlias != "_" && runtimeAlias != "." {
		b.WriteString("\nvar _ = " + runtimeAlias + ".Version\n")
	}
	if rewroteTime && timeAlias != "" && timeAlias != "_" && timeAlias != "." {
		b.WriteString("\nvar _ " + timeAlias + ".Duration\n")
	}
	_ = usedSim
	return []byte(b.String())
}

func rewriteCall(p *pkgInfo, c *ast.CallExpr, off func(token.Pos) int, src []byte,
	add0 func(o, del int, text string), usedSim, rewroteSyncFunc, rewroteTime, rewroteRuntime *bool, render func(ast.Node) string) (replacedFun bool) {
	// an edit that replaces the function expression up to the parenthesis swallows the
	// receiver text: the receiver is rendered (its own rewrites applied) and the caller
	// must not walk into it again
	add := func(o, del int, text string) {
		if o == off(c.Fun.Pos()) && del == off(c.Lparen)+1-off(c.Fun.Pos()) {
			replacedFun = true
		}
		add0(o, del, text)
	}
	fun := c.Fun
	if ix, ok := fun.(*ast.IndexExpr); ok {
		fun = ix.X
	}
	if ix, ok := fun.(*ast.IndexListExpr); ok {
		fun = ix.X
	}
	sel, ok := fun.(*ast.SelectorExpr)
	if !ok {
		return
	}
	obj, ok := p.info.Uses[sel.Sel].(*types.Func)
	if ok && obj.Pkg() != nil && obj.Pkg().Path() == "time" {
		switch obj.FullName() {
		case "time.Now", "time.Since", "time.Until", "time.Sleep", "time.After", "time.Tick", "time.NewTimer", "time.NewTicker", "time.AfterFunc":
			// the library reads the simulated clock / arms simulated timers
			add(off(sel.Pos()), off(sel.End())-off(sel.Pos()), "zzsim."+sel.Sel.Name)
			rep.Rewrites[obj.FullName()]++
			*usedSim = true
			*rewroteTime = true
		case "(*time.Timer).Stop", "(*time.Timer).Reset", "(*time.Ticker).Stop", "(*time.Ticker).Reset":
			name := map[string]string{"(*time.Timer).Stop": "TimerStop", "(*time.Timer).Reset": "TimerReset", "(*time.Ticker).Stop": "TickerStop", "(*time.Ticker).Reset": "TickerReset"}[obj.FullName()]
			x := render(sel.X)
			if tv, ok := p.info.Types[sel.X]; ok {
				if _, isPtr := tv.Type.Underlying().(*types.Pointer); !isPtr {
					x = "&(" + x + ")"
				}
			}
			sep := ", "
			if len(c.Args) == 0 {
				sep = ""
			}
			add(off(c.Fun.Pos()), off(c.Lparen)+1-off(c.Fun.Pos()), "zzsim."+name+"("+x+sep)
			rep.Rewrites[obj.FullName()]++
			*usedSim = true
			*rewroteTime = true
		}
		return
	}
	if ok && obj.Pkg() != nil && obj.Pkg().Path() == "runtime" {
		switch obj.FullName() {
		case "runtime.GOMAXPROCS", "runtime.NumCPU", "runtime.Gosched":
			// a configuration knob the simulator varies per run
			add(off(sel.Pos()), off(sel.End())-off(sel.Pos()), "zzsim."+sel.Sel.Name)
			rep.Rewrites[obj.FullName()]++
			*usedSim = true
			*rewroteRuntime = true
		}
		return
	}
	// x.Lock() / x.RLock() on a value of INTERFACE type (sync.Locker, or an interface of
	// the library that a sync mutex satisfies): decided at run time
	if sig, _ := func() (*types.Signature, bool) {
		if !ok {
			return nil, false
		}
		sg, isSig := obj.Type().(*types.Signature)
		return sg, isSig
	}(); ok && sig != nil && sig.Results().Len() == 0 && sig.Params().Len() == 0 && len(c.Args) == 0 && (sel.Sel.Name == "Lock" || sel.Sel.Name == "RLock") {
		if tv, has := p.info.Types[sel.X]; has && tv.Type != nil {
			if _, isIface := tv.Type.Underlying().(*types.Interface); isIface {
				if _, isTP := tv.Type.(*types.TypeParam); !isTP {
					add(off(c.Fun.Pos()), off(c.Lparen)+1-off(c.Fun.Pos()), "zzsim."+sel.Sel.Name+"Any("+render(sel.X))
					rep.Rewrites[sel.Sel.Name+" (interface)"]++
					*usedSim = true
					return
				}
			}
		}
	}
	if !ok || obj.Pkg() == nil || obj.Pkg().Path() != "sync" {
		return
	}
	full := obj.FullName()
	recvText := func() string {
		x := render(sel.X)
		// a method promoted through embedding: name the embedded field explicitly so that
		// the wrapper receives the *sync.Mutex / *sync.RWMutex / *sync.Once itself
		if s, ok := p.info.Selections[sel]; ok && len(s.Index()) > 1 {
			t := s.Recv()
			path := ""
			for _, idx := range s.Index()[:len(s.Index())-1] {
				if pt, ok := t.Underlying().(*types.Pointer); ok {
					t = pt.Elem()
				}
				st, ok := t.Underlying().(*types.Struct)
				if !ok {
					path = ""
					break
				}
				f := st.Field(idx)
				path += "." + f.Name()
				t = f.Type()
			}
			if path != "" {
				if _, isPtr := t.Underlying().(*types.Pointer); isPtr {
					return "(" + x + ")" + path
				}
				return "&(" + x + ")" + path
			}
		}
		if tv, ok := p.info.Types[sel.X]; ok {
			if _, isPtr := tv.Type.Underlying().(*types.Pointer); isPtr {
				return x
			}
		}
		return "&(" + x + ")"
	}
	switch full {
	case "(*sync.Mutex).Lock", "(*sync.RWMutex).Lock":
		add(off(c.Fun.Pos()), off(c.Lparen)+1-off(c.Fun.Pos()), "zzsim.Lock("+recvText())
		rep.Rewrites["Lock"]++
		*usedSim = true
	case "(*sync.RWMutex).RLock":
		add(off(c.Fun.Pos()), off(c.Lparen)+1-off(c.Fun.Pos()), "zzsim.RLock("+recvText())
		rep.Rewrites["RLock"]++
		*usedSim = true
	case "(*sync.Once).Do":
		add(off(c.Fun.Pos()), off(c.Lparen)+1-off(c.Fun.Pos()), "zzsim.OnceDo("+recvText()+", ")
		rep.Rewrites["Once.Do"]++
		*usedSim = true
	case "(*sync.Cond).Wait":
		add(off(c.Fun.Pos()), off(c.Lparen)+1-off(c.Fun.Pos()), "zzsim.CondWait("+recvText())
		rep.Rewrites["Cond.Wait"]++
	case "(*sync.Cond).Signal":
		add(off(c.Fun.Pos()), off(c.Lparen)+1-off(c.Fun.Pos()), "zzsim.CondSignal("+recvText())
		rep.Rewrites["Cond.Signal"]++
	case "(*sync.Cond).Broadcast":
		add(off(c.Fun.Pos()), off(c.Lparen)+1-off(c.Fun.Pos()), "zzsim.CondBroadcast("+recvText())
		rep.Rewrites["Cond.Broadcast"]++
	case "(*sync.WaitGroup).Add":
		add(off(c.Fun.Pos()), off(c.Lparen)+1-off(c.Fun.Pos()), "zzsim.WGAdd("+recvText()+", ")
		rep.Rewrites["WaitGroup.Add"]++
	case "(*sync.WaitGroup).Done":
		add(off(c.Fun.Pos()), off(c.Lparen)+1-off(c.Fun.Pos()), "zzsim.WGDone("+recvText())
		rep.Rewrites["WaitGroup.Done"]++
	case "(*sync.WaitGroup).Wait":
		add(off(c.Fun.Pos()), off(c.Lparen)+1-off(c.Fun.Pos()), "zzsim.WGWait("+recvText())
		rep.Rewrites["WaitGroup.Wait"]++
	case "sync.OnceFunc", "sync.OnceValue", "sync.OnceValues":
		add(off(sel.Pos()), off(sel.End())-off(sel.Pos()), "zzsim."+sel.Sel.Name)
		rep.Rewrites[full]++
		*usedSim = true
		*rewroteSyncFunc = true
	}
	return replacedFun
}

func unparen(e ast.Expr) ast.Expr {
	for {
		p, ok := e.(*ast.ParenExpr)
		if !ok {
			return e
		}
		e = p.X
	}
}

// selectRewritable: 1..16 communication clauses, each a plain send, receive or
// receive-assignment.
// isAtomicLoad: sync/atomic.LoadXxx(&v) or a Load method of a sync/atomic type.
func isAtomicLoad(p *pkgInfo, c *ast.CallExpr) bool {
	fun := unparen(c.Fun)
	if ix, ok := fun.(*ast.IndexExpr); ok {
		fun = ix.X
	}
	sel, ok := fun.(*ast.SelectorExpr)
	if !ok {
		return false
	}
	obj, ok := p.info.Uses[sel.Sel].(*types.Func)
	if !ok || obj.Pkg() == nil || obj.Pkg().Path() != "sync/atomic" {
		return false
	}
	if tv, ok := p.info.Types[c]; !ok || tv.Type == nil {
		return false
	} else if _, tuple := tv.Type.(*types.Tuple); tuple {
		return false
	}
	return strings.HasPrefix(obj.Name(), "Load")
}

func hasCall(e ast.Expr) bool {
	found := false
	ast.Inspect(e, func(n ast.Node) bool {
		if _, ok := n.(*ast.CallExpr); ok {
			found = true
		}
		return !found
	})
	return found
}

// labelled: set by analyse/instrument for select statements that carry a label
var labelledSelect = map[*ast.SelectStmt]bool{}

func selectRewritable(x *ast.SelectStmt) bool {
	n := 0
	for _, c := range x.Body.List {
		cl, ok := c.(*ast.CommClause)
		if !ok {
			return false
		}
		if cl.Comm == nil {
			continue
		}
		n++
		switch cm := cl.Comm.(type) {
		case *ast.SendStmt:
		case *ast.ExprStmt:
			if u, ok := unparen(cm.X).(*ast.UnaryExpr); !ok || u.Op != token.ARROW {
				return false
			}
		case *ast.AssignStmt:
			if len(cm.Rhs) != 1 || len(cm.Lhs) > 2 {
				return false
			}
			if u, ok := unparen(cm.Rhs[0]).(*ast.UnaryExpr); !ok || u.Op != token.ARROW {
				return false
			} else if labelledSelect[x] && hasCall(u.X) {
				return false // would need a block around a labelled statement
			}
		default:
			return false
		}
	}
	return n >= 1 && n <= 16
}

// goCallRewritable: `go f(args)` where f is an ordinary function value (not a builtin,
// not a conversion) and no argument contains a function literal (whose body would need
// its own instrumentation inside the replaced text).
func goCallRewritable(p *pkgInfo, g *ast.GoStmt) bool {
	fun := unparen(g.Call.Fun)
	if tv, ok := p.info.Types[fun]; ok {
		if tv.IsBuiltin() || tv.IsType() {
			return false
		}
	}
	bad := false
	ast.Inspect(g.Call, func(n ast.Node) bool {
		if _, ok := n.(*ast.FuncLit); ok {
			bad = true
		}
		return !bad
	})
	// `zzf := f` needs an instantiated function, `zza0 := g()` a single value
	ast.Inspect(fun, func(n ast.Node) bool {
		if id, ok := n.(*ast.Ident); ok {
			if _, generic := p.info.Instances[id]; generic {
				bad = true
			}
		}
		return !bad
	})
	for _, a := range g.Call.Args {
		if tv, ok := p.info.Types[a]; ok {
			if _, tuple := tv.Type.(*types.Tuple); tuple {
				bad = true
			}
		}
	}
	return !bad
}
