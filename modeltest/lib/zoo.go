package lib

import (
	"errors"
	"fmt"
	"sort"
	"strings"
	"sync"
	"sync/atomic"
	"time"
)

// Zoo exercises Go syntax the instrumenter must splice yields into without changing
// meaning: labels, goto, fallthrough, type switches, generics, closures, defer/recover,
// method values, embedded mutexes, multi-line statements, if/else chains with init
// statements, range forms, select forms, named results, variadics.

type shape interface{ area() int }
type zsq struct{ s int }
type rect struct{ w, h int }

func (s zsq) area() int   { return s.s * s.s }
func (r *rect) area() int { return r.w * r.h }

type guarded struct {
	sync.Mutex
	n int
}

func (g *guarded) inc(d int) int {
	g.Lock()
	defer g.Unlock()
	g.n += d
	return g.n
}

type nested struct {
	inner struct {
		mu sync.RWMutex
		m  map[string]int
	}
}

func gmap[T any, U any](xs []T, f func(T) U) []U {
	out := make([]U, 0, len(xs))
	for _, x := range xs {
		out = append(out, f(x))
	}
	return out
}

type number interface{ ~int | ~int64 }

func gsum[T number](xs ...T) (total T) {
	for i := range xs {
		total += xs[i]
	}
	return
}

var zooCalls atomic.Int64

var zooTable = func() map[string]int {
	m := map[string]int{}
	for i, w := range strings.Fields("alpha beta gamma delta") {
		m[w] = i
	}
	return m
}()

func init() {
	if len(zooTable) != 4 {
		panic("zoo table")
	}
}

func mayPanic(k int) (r int, err error) {
	defer func() {
		if x := recover(); x != nil {
			err = fmt.Errorf("recovered: %v", x)
			r = -1
		}
	}()
	if k%5 == 0 {
		var p *rect
		return p.w, nil // nil dereference
	}
	return k, nil
}

// Zoo returns a value that depends only on k.
func Zoo(k int) int {
	zooCalls.Add(1)
	acc := 0

	// labels, continue/break with labels, goto
outer:
	for i := 0; i < 4; i++ {
		for j := 0; j < 4; j++ {
			if j == 2 {
				continue outer
			}
			if i == 3 {
				break outer
			}
			acc += i*10 + j
		}
	}
	n := 0
retry:
	n++
	if n < 3 {
		goto retry
	}
	acc += n

	// switch forms
	switch x := k % 4; {
	case x == 0:
		acc += 1
		fallthrough
	case x == 1:
		acc += 2
	case x == 2, x == 3:
		acc += 3
	default:
		acc += 100
	}
	switch k % 3 {
	case 0:
	case 1:
		acc++
	}
	var sh shape = zsq{k%7 + 1}
	if k%2 == 0 {
		sh = &rect{2, k%5 + 1}
	}
	switch v := sh.(type) {
	case zsq:
		acc += v.area()
	case *rect:
		acc += v.area() + v.w
	case nil:
		acc = -1
	}

	// if / else chains with init statements
	if v, err := mayPanic(k); err != nil {
		acc += 7
	} else if v > 3 {
		acc += v
	} else {
		acc -= v
	}

	// closures, method values, defer order
	g := &guarded{}
	add := g.inc
	func() {
		defer add(1)
		defer func() { add(10) }()
		add(100)
	}()
	acc += g.n

	// generics, variadics, sort with callback
	words := []string{"delta", "alpha", "gamma", "beta"}
	sort.Slice(words, func(i, j int) bool { return zooTable[words[i]] < zooTable[words[j]] })
	lens := gmap(words, func(s string) int { return len(s) })
	acc += gsum(lens...) + int(gsum[int64]())
	if strings.Join(words, ",") != "alpha,beta,gamma,delta" {
		acc = -2
	}

	// nested struct with RWMutex, range over a private map (keys sorted afterwards)
	var ns nested
	ns.inner.m = map[string]int{}
	ns.inner.mu.Lock()
	for i, w := range words {
		ns.inner.m[w] = i
	}
	ns.inner.mu.Unlock()
	ns.inner.mu.RLock()
	keys := make([]string, 0, len(ns.inner.m))
	for w := range ns.inner.m {
		keys = append(keys, w)
	}
	ns.inner.mu.RUnlock()
	sort.Strings(keys)
	for _, w := range keys {
		acc += ns.inner.m[w]
	}

	// select forms
	ch := make(chan int, 1)
	var err error = errors.New("x")
	select {
	case ch <- k:
	default:
		err = nil
	}
	select {
	case v, ok := <-ch:
		if ok {
			acc += v - k
		}
	default:
		acc = -3
	}
	if err == nil {
		acc = -4
	}

	// multi-line composite statement
	total := []int{
		acc,
		func() int {
			x := 0
			for range [3]struct{}{} {
				x++
			}
			return x
		}(),
	}
	return total[0] + total[1]
}

// Idioms exercises everyday concurrency idioms the instrumenter must get right: a range
// over a channel with the per-iteration copy `j := j`, timers created inside select
// headers, a caller that can only proceed through a timeout, a spin on an atomic with an
// empty loop body, clock and sleep used through function values. It returns 14*k.
var (
	nowFn   = time.Now
	sleepFn = time.Sleep
)

func Idioms(k int) int {
	total := 0
	jobs := make(chan int)
	res := make(chan int, k+1)
	var wg sync.WaitGroup
	for w := 0; w < 2; w++ {
		wg.Add(1)
		go func() {
			defer wg.Done()
			for j := range jobs {
				j := j
				res <- j
			}
		}()
	}
	for i := 1; i <= k; i++ {
		jobs <- 1
	}
	close(jobs)
	wg.Wait()
	close(res)
	for v := range res {
		total += v
	}
	req := make(chan int)
	flushed := make(chan int)
	go func() {
		sum := 0
		for {
			select {
			case v, ok := <-req:
				if !ok {
					flushed <- sum
					return
				}
				sum += v
			case <-time.After(50 * time.Millisecond):
			}
		}
	}()
	for i := 0; i < k; i++ {
		req <- 1
	}
	close(req)
	total += <-flushed
	done := make(chan int)
	go func() {
		select {
		case <-time.After(20 * time.Millisecond):
			done <- k
		}
	}()
	total += <-done
	var ready atomic.Bool
	go func() { ready.Store(true) }()
	for !ready.Load() {
	}
	total += k
	t0 := nowFn()
	sleepFn(3 * time.Millisecond)
	if nowFn().Sub(t0) >= 3*time.Millisecond {
		total += k
	}
	// a timer function reads what was written before its timer was armed (ordered by
	// the runtime: no data race)
	e := &struct{ key int }{}
	e.key = k
	got := make(chan int, 1)
	time.AfterFunc(time.Millisecond, func() { got <- e.key })
	total += <-got
	// locks behind interfaces: the sync.Cond idiom c.L.Lock(), an RLocker
	var mu sync.Mutex
	var l sync.Locker = &mu
	cond := sync.NewCond(l)
	turn := 0
	go func() {
		cond.L.Lock()
		turn = 1
		cond.L.Unlock()
		cond.Broadcast()
	}()
	cond.L.Lock()
	for turn == 0 {
		cond.Wait()
	}
	cond.L.Unlock()
	total += k
	var rw sync.RWMutex
	rl := rw.RLocker()
	go func() {
		rw.Lock()
		turn = 2
		rw.Unlock()
	}()
	rl.Lock()
	if turn == 1 || turn == 2 {
		total += k
	}
	rl.Unlock()
	// the channel expression of a range / of a receive case is a CALL: evaluated once
	gens := 0
	gen := func(n int) <-chan int {
		gens++
		c := make(chan int, n)
		for i := 0; i < n; i++ {
			c <- 1
		}
		close(c)
		return c
	}
	for v := range gen(k) {
		total += v
	}
	select {
	case v, ok := <-gen(1):
		if ok {
			total += v * k
		}
	}
	if gens != 2 {
		total = -1000
	}
	// a concrete value sent on a channel of interface type; a go statement whose arguments
	// hold a timer; a lock reached through an expression with an atomic load in it
	errc := make(chan error, 1)
	errc <- &idiomErr{k}
	if e, ok := (<-errc).(*idiomErr); ok {
		total += e.k
	}
	anyc := make(chan any, 1)
	select {
	case anyc <- k:
	default:
	}
	if v, ok := (<-anyc).(int); ok {
		total += v
	}
	waitc := make(chan int)
	go idiomWait(time.After(time.Millisecond), waitc, k)
	total += <-waitc
	var shards [2]struct {
		mu sync.Mutex
		n  int
	}
	var next atomic.Int64
	shards[next.Load()%2].mu.Lock()
	shards[next.Load()%2].n += k
	total += shards[0].n
	shards[next.Load()%2].mu.Unlock()
	return total
}

type idiomErr struct{ k int }

func (e *idiomErr) Error() string { return "idiom" }

func idiomWait(t <-chan time.Time, out chan<- int, k int) {
	<-t
	out <- k
}
