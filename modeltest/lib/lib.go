// Package lib is a synthetic library used only to test the simulator's model of
// goroutines, WaitGroup, channels, Mutex, RWMutex and Once (./check C13 --modeltest).
// The functions in the first half are correct under every schedule; those in the second
// half each contain one classic concurrency defect that the simulator must expose.
package lib

import (
	"runtime"
	"sync"
	"sync/atomic"
	"time"
)

// ---------------- correct ----------------

// FanOut squares every element in its own goroutine and sums the results.
func FanOut(xs []int) int {
	res := make([]int, len(xs))
	var wg sync.WaitGroup
	for i, x := range xs {
		wg.Add(1)
		go func(i, x int) {
			defer wg.Done()
			res[i] = x * x
		}(i, x)
	}
	wg.Wait()
	s := 0
	for _, r := range res {
		s += r
	}
	return s
}

// Pipeline: producer -> unbuffered channel -> squarer -> unbuffered channel -> consumer.
func Pipeline(n int) int {
	a := make(chan int)
	b := make(chan int)
	go func() {
		for i := 1; i <= n; i++ {
			a <- i
		}
		close(a)
	}()
	go func() {
		for v := range a {
			b <- v * v
		}
		close(b)
	}()
	s := 0
	for v := range b {
		s += v
	}
	return s
}

// Buffered uses a small buffered channel and an explicit done channel.
func Buffered(n int) int {
	ch := make(chan int, 2)
	done := make(chan int)
	go func() {
		s := 0
		for {
			v, ok := <-ch
			if !ok {
				break
			}
			s += v
		}
		done <- s
	}()
	for i := 1; i <= n; i++ {
		ch <- i
	}
	close(ch)
	return <-done
}

// PingPong bounces a counter between two goroutines n times.
func PingPong(n int) int {
	ping, pong := make(chan int), make(chan int)
	go func() {
		for v := range ping {
			pong <- v + 1
		}
		close(pong)
	}()
	v := 0
	for i := 0; i < n; i++ {
		ping <- v
		v = <-pong
	}
	close(ping)
	<-pong
	return v
}

// Semaphore limits concurrency with a buffered channel.
func Semaphore(n int) int {
	sem := make(chan struct{}, 2)
	var mu sync.Mutex
	var wg sync.WaitGroup
	total := 0
	for i := 1; i <= n; i++ {
		wg.Add(1)
		go func(i int) {
			defer wg.Done()
			sem <- struct{}{}
			mu.Lock()
			total += i
			mu.Unlock()
			<-sem
		}(i)
	}
	wg.Wait()
	return total
}

var (
	tableOnce sync.Once
	table     []int
)

// OnceTable lazily builds a shared read-only table.
func OnceTable(k int) int {
	tableOnce.Do(func() {
		t := make([]int, 64)
		for i := range t {
			t[i] = i * 3
		}
		table = t
	})
	return table[k%64]
}

type memo struct {
	sync.RWMutex
	m map[int]int
}

var sq = memo{m: map[int]int{}}

// Square memoises under an embedded RWMutex (no recursive read lock).
func Square(k int) int {
	sq.RLock()
	v, ok := sq.m[k]
	sq.RUnlock()
	if ok {
		return v
	}
	v = k * k
	sq.Lock()
	sq.m[k] = v
	sq.Unlock()
	return v
}

var (
	cntMu sync.Mutex
	cnt   = map[string]int{}
)

// Count keeps statistics under a mutex and returns a value that does not depend on them.
func Count(key string) int {
	cntMu.Lock()
	defer cntMu.Unlock()
	cnt[key]++
	return len(key)
}

var lazyVal = sync.OnceValue(func() int {
	s := 0
	for i := 0; i < 10; i++ {
		s += i
	}
	return s
})

// Lazy uses sync.OnceValue.
func Lazy() int { return lazyVal() }

func poolWorker(id int, jobs <-chan int, results chan<- int, wg *sync.WaitGroup) {
	defer wg.Done()
	for j := range jobs {
		results <- j*j + id*0
	}
}

// WorkerPool is the classic idiom with `go worker(...)` on a named function.
func WorkerPool(n int) int {
	jobs := make(chan int, n)
	results := make(chan int, n)
	var wg sync.WaitGroup
	for w := 0; w < 3; w++ {
		wg.Add(1)
		go poolWorker(w, jobs, results, &wg)
	}
	for i := 1; i <= n; i++ {
		jobs <- i
	}
	close(jobs)
	wg.Wait()
	close(results)
	s := 0
	for r := range results {
		s += r
	}
	return s
}

// SelectMerge merges two producers with select until both channels are closed.
func SelectMerge(n int) int {
	a, b := make(chan int), make(chan int)
	go func() {
		for i := 1; i <= n; i++ {
			a <- i
		}
		close(a)
	}()
	go func() {
		for i := 1; i <= n; i++ {
			b <- i * 10
		}
		close(b)
	}()
	s := 0
	for a != nil || b != nil {
		select {
		case v, ok := <-a:
			if !ok {
				a = nil
				continue
			}
			s += v
		case v, ok := <-b:
			if !ok {
				b = nil
				continue
			}
			s += v
		}
	}
	return s
}

// NonBlocking uses select with default for try-send / try-receive.
func NonBlocking(n int) int {
	ch := make(chan int, 1)
	sent := 0
	for i := 0; i < n; i++ {
		select {
		case ch <- i:
			sent++
		default:
		}
		select {
		case <-ch:
		default:
			sent--
		}
	}
	return sent
}

// Quit: a worker that serves requests until told to quit, over select with a send case.
func Quit(n int) int {
	req := make(chan int)
	resp := make(chan int)
	quit := make(chan struct{})
	go func() {
		acc := 0
		for {
			select {
			case v := <-req:
				acc += v
			case resp <- acc:
			case <-quit:
				return
			}
		}
	}()
	for i := 1; i <= n; i++ {
		req <- i
	}
	v := 0
	for v != n*(n+1)/2 {
		v = <-resp
	}
	close(quit)
	return v
}

// SleepOrder starts n goroutines that sleep for different times and records the order in
// which they wake: in simulated time that order is by duration.
func SleepOrder(n int) int {
	var mu sync.Mutex
	var wg sync.WaitGroup
	order := 0
	for i := n; i >= 1; i-- {
		wg.Add(1)
		go func(i int) {
			defer wg.Done()
			time.Sleep(time.Duration(i) * time.Hour)
			mu.Lock()
			order = order*10 + i
			mu.Unlock()
		}(i)
	}
	wg.Wait()
	return order
}

// TickerCount counts n ticks of a one-minute ticker (time has to skip ahead).
func TickerCount(n int) int {
	t := time.NewTicker(time.Minute)
	defer t.Stop()
	c := 0
	for range t.C {
		c++
		if c == n {
			break
		}
	}
	return c
}

// WithTimeout: the work always finishes long before the timeout.
func WithTimeout(n int) int {
	done := make(chan int, 1)
	go func() {
		s := 0
		for i := 1; i <= n; i++ {
			s += i
		}
		done <- s
	}()
	timer := time.NewTimer(time.Hour)
	defer timer.Stop()
	select {
	case v := <-done:
		return v
	case <-timer.C:
		return -1
	case <-time.After(2 * time.Hour):
		return -2
	}
}

// AfterFuncOnce arms an AfterFunc and waits for it.
func AfterFuncOnce(n int) int {
	ch := make(chan int, 1)
	t := time.AfterFunc(time.Duration(n)*time.Second, func() { ch <- n * 2 })
	v := <-ch
	if t.Stop() {
		return -1 // it has fired: Stop must report false
	}
	return v
}

// CondQueue: producer / consumer over a slice guarded by a mutex and a sync.Cond.
func CondQueue(n int) int {
	var mu sync.Mutex
	c := sync.NewCond(&mu)
	var q []int
	closed := false
	go func() {
		for i := 1; i <= n; i++ {
			mu.Lock()
			q = append(q, i)
			mu.Unlock()
			c.Signal()
		}
		mu.Lock()
		closed = true
		mu.Unlock()
		c.Broadcast()
	}()
	s := 0
	for {
		mu.Lock()
		for len(q) == 0 && !closed {
			c.Wait()
		}
		if len(q) == 0 && closed {
			mu.Unlock()
			return s
		}
		s += q[0]
		q = q[1:]
		mu.Unlock()
	}
}

// SpinHandoff: a goroutine publishes a value through an atomic flag; the caller polls it
// with runtime.Gosched (correct, if inelegant).
func SpinHandoff(k int) int {
	var ready atomic.Bool
	v := 0
	go func() {
		v = k * 3
		ready.Store(true)
	}()
	for !ready.Load() {
		runtime.Gosched()
	}
	return v
}

// ---------------- defective ----------------

var racy int

// RacyCounter: unsynchronised read-modify-write of a package variable.
func RacyCounter() int {
	v := racy
	v++
	racy = v
	return 1
}

type rcache struct {
	mu sync.RWMutex
	m  map[int]int
}

var rc = rcache{m: map[int]int{}}

func (c *rcache) get(k int, depth int) (int, bool) {
	c.mu.RLock()
	defer c.mu.RUnlock()
	if depth > 0 {
		return c.get(k, depth-1) // recursive read lock: deadlocks when a writer queues in between
	}
	v, ok := c.m[k]
	return v, ok
}

// RecursiveRLock: read lock taken recursively while writers may queue.
func RecursiveRLock(k int) int {
	if v, ok := rc.get(k, 1); ok {
		return v
	}
	rc.mu.Lock()
	rc.m[k] = k * 2
	rc.mu.Unlock()
	return k * 2
}

var (
	lastMu  sync.Mutex
	lastKey int
	lastVal int
	lastOK  bool
)

// TornCache: key and value are stored in two separate critical sections.
func TornCache(k int) int {
	lastMu.Lock()
	if lastOK && lastKey == k {
		v := lastVal
		lastMu.Unlock()
		return v
	}
	lastMu.Unlock()
	v := k * 7
	lastMu.Lock()
	lastKey = k
	lastOK = true
	lastMu.Unlock()
	lastMu.Lock()
	lastVal = v
	lastMu.Unlock()
	return v
}

var (
	abMu, baMu sync.Mutex
)

// LockOrder takes two locks in an order that depends on the argument.
func LockOrder(k int) int {
	if k%2 == 0 {
		abMu.Lock()
		baMu.Lock()
		baMu.Unlock()
		abMu.Unlock()
	} else {
		baMu.Lock()
		abMu.Lock()
		abMu.Unlock()
		baMu.Unlock()
	}
	return k
}

type flight struct {
	done chan int
}

var (
	flMu sync.Mutex
	fl   = map[int]*flight{}
)

// Coalesce: concurrent callers for the same key wait for the first one; only one waiter
// gets the value (capacity-1 channel, then close), the others read zero.
func Coalesce(k int) int {
	flMu.Lock()
	if f, ok := fl[k]; ok {
		flMu.Unlock()
		return <-f.done
	}
	f := &flight{done: make(chan int, 1)}
	fl[k] = f
	flMu.Unlock()
	v := 0
	for i := 0; i <= k; i++ {
		v += i
	}
	flMu.Lock()
	delete(fl, k)
	flMu.Unlock()
	f.done <- v
	close(f.done)
	return v
}

// FirstError returns the first "error" found by concurrently running workers: which one
// is first depends on the schedule.
func FirstError(xs []int) int {
	var mu sync.Mutex
	var wg sync.WaitGroup
	first := 0
	for _, x := range xs {
		wg.Add(1)
		go func(x int) {
			defer wg.Done()
			if x < 0 {
				mu.Lock()
				if first == 0 {
					first = x
				}
				mu.Unlock()
			}
		}(x)
	}
	wg.Wait()
	return first
}

// FoundOrDone: workers report a hit on a buffered channel, a helper closes done when all
// workers have finished, the caller selects on both: when both are ready the choice is
// random, so a hit can be reported as a miss.
func FoundOrDone(n int) int {
	found := make(chan struct{}, 1)
	done := make(chan struct{})
	var wg sync.WaitGroup
	for i := 0; i < n+1; i++ {
		wg.Add(1)
		go func(i int) {
			defer wg.Done()
			if i == n {
				select {
				case found <- struct{}{}:
				default:
				}
			}
		}(i)
	}
	go func() {
		wg.Wait()
		close(done)
	}()
	select {
	case <-found:
		return 1
	case <-done:
		return 0
	}
}

type ttlEntry struct {
	val     int
	expires time.Time
}

var (
	ttlMu      sync.Mutex
	ttlMap     = map[int]*ttlEntry{}
	ttlJanitor sync.Once
)

// ExpiringSquare caches k*k for a minute; a janitor goroutine sweeps every 30 s. The
// sweep marks an entry dead (val = 0) in one critical section and deletes it in another;
// a reader in between gets 0.
func ExpiringSquare(k int) int {
	ttlJanitor.Do(func() {
		go func() {
			t := time.NewTicker(30 * time.Second)
			for range t.C {
				ttlMu.Lock()
				var dead []int
				for key, e := range ttlMap {
					if time.Now().After(e.expires) {
						e.val = 0
						dead = append(dead, key)
					}
				}
				ttlMu.Unlock()
				for _, key := range dead {
					ttlMu.Lock()
					delete(ttlMap, key)
					ttlMu.Unlock()
				}
			}
		}()
	})
	ttlMu.Lock()
	if e, ok := ttlMap[k]; ok {
		v := e.val
		ttlMu.Unlock()
		return v
	}
	ttlMu.Unlock()
	v := k * k
	ttlMu.Lock()
	ttlMap[k] = &ttlEntry{val: v, expires: time.Now().Add(time.Minute)}
	ttlMu.Unlock()
	return v
}

// CondIfNotFor: two consumers wait with `if` instead of `for`; after a Broadcast both
// proceed although only one item was queued, and the second one finds the queue empty.
func CondIfNotFor(k int) int {
	var mu sync.Mutex
	c := sync.NewCond(&mu)
	var q []int
	got := make(chan int, 2)
	for w := 0; w < 2; w++ {
		go func() {
			mu.Lock()
			if len(q) == 0 {
				c.Wait()
			}
			v := -1000
			if len(q) > 0 {
				v = q[0]
				q = q[1:]
			}
			mu.Unlock()
			got <- v
		}()
	}
	mu.Lock()
	q = append(q, k)
	mu.Unlock()
	c.Broadcast()
	mu.Lock()
	q = append(q, k)
	mu.Unlock()
	c.Broadcast()
	return <-got + <-got
}

// AtomicRMW: a read-modify-write made of atomic operations inside ONE statement, written
// in the belief that nobody can get in between the load and the compare-and-swap.
// Race-free; it returns 0 (wrong) when another caller's increment lands between the
// operands - which only a yield point INSIDE the expression can produce.
var ticket atomic.Int64

func AtomicRMW(k int) int {
	if ticket.CompareAndSwap(ticket.Load(), ticket.Load()+1) {
		return 1
	}
	return 0
}
