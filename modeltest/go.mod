module modeltest

go 1.21
