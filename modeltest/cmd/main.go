// Command modeltest drives the synthetic library under the simulator (see lib/lib.go).
//
//	modeltest ok  -seed S -runs R          correct functions: every result must be right, no deadlock
//	modeltest bug -name N -seed S -runs R  defective function N: report whether the defect showed
package main

import (
	"flag"
	"fmt"
	"os"
	"runtime/debug"
	"strconv"
	"time"

	"modeltest/lib"
	simrt "modeltest/zz_simrt"
)

type rnd struct{ s uint64 }

func (r *rnd) next() uint64 {
	r.s += 0x9e3779b97f4a7c15
	z := r.s
	z = (z ^ (z >> 30)) * 0xbf58476d1ce4e5b9
	z = (z ^ (z >> 27)) * 0x94d049bb133111eb
	return z ^ (z >> 31)
}
func (r *rnd) n(n int) int { return int(r.next() % uint64(n)) }

type op struct {
	fn   int
	arg  int
	want int
}

func sumSq(n int) int {
	s := 0
	for i := 1; i <= n; i++ {
		s += i * i
	}
	return s
}

func call(o op) int {
	switch o.fn {
	case 0:
		xs := make([]int, o.arg)
		for i := range xs {
			xs[i] = i + 1
		}
		return lib.FanOut(xs)
	case 1:
		return lib.Pipeline(o.arg)
	case 2:
		return lib.Buffered(o.arg)
	case 3:
		return lib.PingPong(o.arg)
	case 4:
		return lib.Semaphore(o.arg)
	case 5:
		return lib.OnceTable(o.arg)
	case 6:
		return lib.Square(o.arg)
	case 7:
		return lib.Count(strconv.Itoa(o.arg))
	case 8:
		return lib.Lazy()
	case 9:
		return lib.SelectMerge(o.arg)
	case 10:
		return lib.NonBlocking(o.arg)
	case 11:
		return lib.Quit(o.arg)
	case 12:
		return lib.WorkerPool(o.arg)
	case 13:
		return lib.Zoo(o.arg)
	case 14:
		return lib.SleepOrder(o.arg%4 + 1)
	case 15:
		return lib.TickerCount(o.arg)
	case 16:
		return lib.WithTimeout(o.arg)
	case 17:
		return lib.AfterFuncOnce(o.arg)
	case 18:
		return lib.CondQueue(o.arg)
	case 19:
		return lib.SpinHandoff(o.arg) + lib.Idioms(o.arg%5+1) - 14*(o.arg%5+1)
	// defective
	case 20:
		return lib.RacyCounter()
	case 21:
		return lib.RecursiveRLock(o.arg)
	case 22:
		return lib.TornCache(o.arg)
	case 23:
		return lib.LockOrder(o.arg)
	case 24:
		return lib.Coalesce(o.arg)
	case 25:
		return lib.FirstError([]int{3, -1, 4, -2, 5, -3})
	case 26:
		return lib.FoundOrDone(o.arg)
	case 27:
		return lib.ExpiringSquare(o.arg)
	case 28:
		return lib.CondIfNotFor(o.arg)
	case 29:
		return lib.AtomicRMW(o.arg)
	}
	panic("bad fn")
}

func want(fn, arg int) int {
	switch fn {
	case 0, 1:
		return sumSq(arg)
	case 2, 4:
		return arg * (arg + 1) / 2
	case 3:
		return arg
	case 5:
		return (arg % 64) * 3
	case 6:
		return arg * arg
	case 7:
		return len(strconv.Itoa(arg))
	case 8:
		return 45
	case 9:
		return 11 * arg * (arg + 1) / 2
	case 10:
		return arg
	case 11:
		return arg * (arg + 1) / 2
	case 12:
		return sumSq(arg)
	case 13:
		return zooWant[arg]
	case 14:
		return []int{1, 12, 123, 1234}[arg%4]
	case 15:
		return arg
	case 16:
		return arg * (arg + 1) / 2
	case 17:
		return arg * 2
	case 18:
		return arg * (arg + 1) / 2
	case 19:
		return arg * 3
	case 28:
		return 2 * arg
	case 29:
		return 1
	case 27:
		return arg * arg
	case 26:
		return 1
	case 20:
		return 1
	case 21:
		return arg * 2
	case 22:
		return arg * 7
	case 23:
		return arg
	case 24:
		return arg * (arg + 1) / 2
	case 25:
		return -1 // the first error in list order (what a sequential implementation returns)
	}
	return 0
}

// zooWant holds lib.Zoo(k) as computed by the UNINSTRUMENTED library (frozen values; the
// instrumented copy must reproduce them).
var zooWant = map[int]int{1: 211, 2: 214, 3: 221, 4: 225, 5: 250, 6: 220, 7: 217}

func policy(r *rnd, nt int, seed uint64) simrt.Policy {
	if nt == 1 {
		return simrt.Policy{Kind: simrt.PolSeq, Seed: seed, PBound: 0.5, First: -1}
	}
	switch r.n(5) {
	case 0:
		return simrt.Policy{Kind: simrt.PolSeq, Seed: seed, PBound: 0.5, First: -1}
	case 1:
		return simrt.Policy{Kind: simrt.PolWalk, Seed: seed, PShared: 0.3, PAPI: 0.2, PPlain: 0.02, PBound: 0.3, First: -1}
	case 2:
		return simrt.Policy{Kind: simrt.PolPCT, Seed: seed, Depth: 1 + r.n(3), EstSteps: 400, First: -1}
	case 3:
		return simrt.Policy{Kind: simrt.PolHerd, Seed: seed, HerdAt: int64(r.n(6)), PShared: 0.5, PAPI: 0.3, PPlain: 0.05, PBound: 0.3, First: -1}
	}
	return simrt.Policy{Kind: simrt.PolStall, Seed: seed, StallTask: r.n(nt), StallOp: 0, StallStep: int64(1 + r.n(30)), PShared: 0.2, PAPI: 0.1, PPlain: 0.01, PBound: 0.3, First: -1}
}

func main() {
	mode := os.Args[1]
	fs := flag.NewFlagSet(mode, flag.ExitOnError)
	seed := fs.Uint64("seed", 1, "")
	runs := fs.Int("runs", 200, "")
	name := fs.Int("fn", 20, "defective function number (bug mode)")
	tasks := fs.Int("tasks", 0, "fixed number of tasks (0 = seeded)")
	fs.Parse(os.Args[2:])
	debug.SetGCPercent(-1)
	racelog := os.Getenv("MODELTEST_RACELOG")
	sig := uint64(0xcbf29ce484222325)
	var steps, spawned, blocked, switches int64
	for i := 0; i < *runs; i++ {
		r := &rnd{*seed*1000003 + uint64(i)}
		nt := 1 + r.n(6)
		if *tasks > 0 {
			nt = *tasks
		}
		plan := make([][]op, nt)
		nops := 0
		for t := range plan {
			k := 1 + r.n(4)
			for j := 0; j < k; j++ {
				var o op
				if mode == "ok" {
					o.fn = r.n(20)
					o.arg = 1 + r.n(7)
				} else {
					o.fn = *name
					o.arg = 1 + r.n(3)
					if o.fn == 21 {
						o.arg = 1 + r.n(100000) // a writer is needed: keep missing the cache
					}
				}
				o.want = want(o.fn, o.arg)
				plan[t] = append(plan[t], o)
				nops++
			}
		}
		got := make([][]int, nt)
		for t := range got {
			got[t] = make([]int, len(plan[t]))
		}
		done := make(chan struct{}, nt)
		pol := policy(r, nt, r.next())
		if mode != "ok" && r.n(2) == 0 {
			// clock-jump faults (as the harness of the real check injects them)
			pol.ClockSteps = []int64{int64(1 + r.n(40)), int64(41 + r.n(80))}
			pol.ClockDeltas = []int64{int64(61 * time.Second), int64(31 * time.Second)}
		}
		res := simrt.Run(nt, nops, pol, func(id int) {
			base := 0
			for t := 0; t < id; t++ {
				base += len(plan[t])
			}
			for j, o := range plan[id] {
				simrt.OpBegin(int32(base+j), int32(o.fn*100+o.arg))
				got[id][j] = call(o)
				simrt.OpEnd(uint64(got[id][j]))
			}
			done <- struct{}{}
		})
		if f := simrt.Fault(); f != "" {
			fmt.Println("FAULT", f)
			os.Exit(2)
		}
		steps += res.Steps
		spawned += res.Spawned
		blocked += res.Blocked
		switches += res.Switches
		sig = (sig ^ res.Signature) * 0x100000001b3
		if res.Deadlock {
			if mode == "ok" {
				fmt.Printf("FAIL false deadlock in run %d (seed %d)\n", i, *seed)
				os.Exit(1)
			}
			fmt.Printf("DETECTED deadlock run=%d\n", i)
			os.Exit(0)
		}
		for t := 0; t < nt; t++ {
			<-done
		}
		for t := range plan {
			for j, o := range plan[t] {
				if got[t][j] != o.want {
					if mode == "ok" {
						fmt.Printf("FAIL run %d task %d op %d fn %d arg %d: got %d want %d\n", i, t, j, o.fn, o.arg, got[t][j], o.want)
						os.Exit(1)
					}
					fmt.Printf("DETECTED wrong result run=%d fn=%d arg=%d got=%d want=%d\n", i, o.fn, o.arg, got[t][j], o.want)
					os.Exit(0)
				}
			}
		}
		if racelog != "" {
			if st, err := os.Stat(racelog + "." + strconv.Itoa(os.Getpid())); err == nil && st.Size() > 0 {
				if mode == "ok" {
					b, _ := os.ReadFile(racelog + "." + strconv.Itoa(os.Getpid()))
					fmt.Printf("FAIL race report on correct code in run %d:\n%s\n", i, b)
					os.Exit(1)
				}
				fmt.Printf("DETECTED data race run=%d\n", i)
				os.Exit(0)
			}
		}
	}
	if mode == "ok" {
		fmt.Printf("OK runs=%d steps=%d spawned=%d blocked=%d switches=%d SIG %016x\n", *runs, steps, spawned, blocked, switches, sig)
		return
	}
	fmt.Println("NOT-DETECTED")
}
