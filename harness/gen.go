//go:build simharness

package main

import (
	"math"
	"strconv"
	"strings"

	"verif/proto"
)

// workload generator: a pure function of (seed, proc, run index, corpus, expected).
type wgen struct {
	c       *proto.Corpus
	e       *proto.Expected
	byFam   map[int][]int
	fams    []int
	getters []int
	panics  []int
	usable  []int // call ids that may be used (bounded step count)
	floods  []int // small flood calls (many distinct strings): rarely, one task of a run makes them
	maxStep int64
	clock   bool // the library reads the clock: add clock-jump faults
}

func newWgen(c *proto.Corpus, e *proto.Expected, maxStep int64) *wgen {
	g := &wgen{c: c, e: e, byFam: map[int][]int{}, maxStep: maxStep}
	for _, call := range c.Calls {
		if e != nil && (call.ID >= len(e.Outcome) || e.Outcome[call.ID] == "" || (maxStep > 0 && e.Steps[call.ID] > maxStep)) {
			continue
		}
		if call.Tag == "flood" {
			// only the small ones, and only as the rare flooding task of a run
			if e == nil || e.Steps[call.ID] <= floodSimSteps {
				g.floods = append(g.floods, call.ID)
			}
			continue
		}
		g.usable = append(g.usable, call.ID)
		if call.Tag == "getter" {
			g.getters = append(g.getters, call.ID)
			continue
		}
		if _, ok := g.byFam[call.Fam]; !ok {
			g.fams = append(g.fams, call.Fam)
		}
		g.byFam[call.Fam] = append(g.byFam[call.Fam], call.ID)
		if e != nil && strings.HasPrefix(e.Outcome[call.ID], "panic:") {
			g.panics = append(g.panics, call.ID)
		}
	}
	return g
}

// flood calls up to this many yields may be used as the flooding task of a simulated run
const floodSimSteps = 150000

var policyNames = []string{"seq", "walk", "pct", "herd", "stall"}

func logU(r *rnd, lo, hi float64) float64 { return math.Pow(10, lo+(hi-lo)*r.f()) }

func (g *wgen) mkOp(id int, callID int) proto.Op {
	c := g.c.Calls[callID]
	op := proto.Op{ID: id, Call: callID, Fn: c.Fn, Expr: c.Expr, List: c.List, NilList: c.NilList, Share: -1, Fam: c.Fam}
	if g.e != nil {
		op.Expect = g.e.Outcome[callID]
	}
	return op
}

func hasList(fn string) bool { return fn == proto.FnSatisfies || fn == proto.FnValidate }
func hasResult(fn string) bool {
	return fn != proto.FnSatisfies
}

func (g *wgen) run(seed uint64, proc, idx int) proto.RunRec {
	r := &rnd{mix(seed, uint64(proc), uint64(idx), 0x11)}
	rec := proto.RunRec{Index: idx, Cold: idx == 0}
	// number of tasks
	nt := 1
	switch x := r.n(100); {
	case x < 8:
		nt = 1
	case x < 40:
		nt = 2
	case x < 65:
		nt = 3
	case x < 80:
		nt = 4
	case x < 97:
		nt = 5 + r.n(4)
	case x < 99:
		nt = 9 + r.n(8) // "any number of goroutines": occasionally many callers, one call each
	default:
		nt = 17 + r.n(48) // rarely a crowd (limits such as "at most 32 at once")
	}
	// pool of call signatures: few keys, neighbouring
	var pool []int
	nf := 1 + r.n(3)
	for i := 0; i < nf; i++ {
		members := g.byFam[g.fams[r.n(len(g.fams))]]
		k := 1 + r.n(4)
		for j := 0; j < k; j++ {
			pool = append(pool, members[r.n(len(members))])
		}
	}
	if r.p(0.25) && len(g.getters) > 0 {
		pool = append(pool, g.getters[r.n(len(g.getters))])
	}
	if r.p(0.25) && len(g.panics) > 0 {
		pool = append(pool, g.panics[r.n(len(g.panics))])
	}
	if r.p(0.15) {
		pool = append(pool, g.usable[r.n(len(g.usable))])
	}
	if len(pool) > 8 {
		pool = pool[:8]
	}
	flood := -1
	if len(g.floods) > 0 && r.p(0.006) {
		// a flooding task alongside: tables fill up, are reset or evicted while others are inside
		flood = g.floods[r.n(len(g.floods))]
	}
	// operations
	id := 0
	var est int64
	uses := map[string]int{} // by list content: slices are shared across different functions too
	for t := 0; t < nt; t++ {
		no := 1 + r.n(6)
		if nt > 4 {
			no = 1 + r.n(3)
		}
		if nt > 8 {
			no = 1
		}
		if nt > 16 && g.e != nil {
			// a crowd makes cheap calls only
			cheap := pool[:0:0]
			for _, c := range pool {
				if g.e.Steps[c] <= 40000 {
					cheap = append(cheap, c)
				}
			}
			if len(cheap) > 0 {
				pool = cheap
			}
		}
		var tr proto.TaskRec
		prev := -1
		for k := 0; k < no; k++ {
			callID := pool[r.n(len(pool))]
			if prev >= 0 && r.p(0.3) {
				callID = prev // repeat(k): same call again
			}
			if flood >= 0 && t == nt-1 && nt <= 8 && k < 2 {
				callID = flood
			}
			prev = callID
			op := g.mkOp(id, callID)
			id++
			if c := g.c.Calls[callID]; hasList(c.Fn) && !c.NilList {
				uses[listKey(c.List)]++
			}
			if g.e != nil {
				est += g.e.Steps[callID]
			}
			tr.Ops = append(tr.Ops, op)
		}
		rec.Tasks = append(rec.Tasks, tr)
	}
	// sharing of argument slices, spare capacity, scribbling
	shareGroup := map[string]int{}
	ngroups := 0
	for t := range rec.Tasks {
		for k := range rec.Tasks[t].Ops {
			op := &rec.Tasks[t].Ops[k]
			if hasList(op.Fn) && !op.NilList {
				op.Spare = []int{0, 0, 1, 2, 4}[r.n(5)]
				if lk := listKey(op.List); uses[lk] > 1 {
					gid, ok := shareGroup[lk]
					if !ok {
						if r.p(0.6) {
							gid = ngroups
							ngroups++
						} else {
							gid = -1
						}
						shareGroup[lk] = gid
					}
					op.Share = gid
				}
				if op.Share < 0 && r.p(0.2) {
					op.ScribbleArg = true
				}
				if op.Share < 0 && r.p(0.25) {
					op.ReuseBuf = true
				}
			}
			if hasResult(op.Fn) && r.p(0.2) {
				op.ScribbleRes = true
			}
		}
	}
	// spare capacity must agree inside a share group: use the first op's value
	groupSpare := map[int]int{}
	for t := range rec.Tasks {
		for k := range rec.Tasks[t].Ops {
			op := &rec.Tasks[t].Ops[k]
			if op.Share >= 0 {
				if s, ok := groupSpare[op.Share]; ok {
					op.Spare = s
				} else {
					groupSpare[op.Share] = op.Spare
				}
			}
		}
	}
	// policy
	pk := "seq"
	if nt > 1 {
		switch x := r.n(100); {
		case x < 12:
			pk = "seq"
		case x < 42:
			pk = "walk"
		case x < 60:
			pk = "pct"
		case x < 75:
			pk = "herd"
		case x < 88:
			pk = "stall"
		default:
			pk = "quantum"
		}
	}
	p := proto.PolicyRec{Kind: pk, Seed: mix(seed, uint64(proc), uint64(idx), 0x22), EstSteps: est}
	switch pk {
	case "seq":
		p.PBound = 0.5
	case "walk":
		p.PShared = 0.1 + 0.4*r.f()
		p.PAPI = 0.05 + 0.25*r.f()
		p.PPlain = logU(r, -5, -3)
		p.PBound = 0.3
	case "pct":
		p.Depth = 1 + r.n(3)
	case "quantum":
		// time slices from a handful of yields (fine-grained interleaving) to a few thousand
		p.Quantum = int64(logU(r, 0.5, 3.8))
		p.PShared = 0.3 * r.f()
		p.PBound = 0.5
	case "herd":
		switch r.n(4) {
		case 0:
			p.HerdAt = 0
		case 1:
			p.HerdAt = -1
		case 2:
			p.HerdAt = int64(1 + r.n(60))
		default:
			first := rec.Tasks[0].Ops[0]
			n := int64(100)
			if g.e != nil && g.e.Steps[first.Call] > 1 {
				n = g.e.Steps[first.Call]
			}
			p.HerdAt = int64(r.next() % uint64(n))
		}
		p.PShared = 0.5
		p.PAPI = 0.3
		p.PPlain = logU(r, -4.5, -2.5)
		p.PBound = 0.3
	case "stall":
		p.StallTask = r.n(nt)
		ops := rec.Tasks[p.StallTask].Ops
		so := ops[r.n(len(ops))]
		p.StallOp = int32(so.ID)
		n := int64(50)
		if g.e != nil && g.e.Steps[so.Call] > 1 {
			n = g.e.Steps[so.Call]
		}
		p.StallStep = 1 + int64(r.next()%uint64(n))
		p.PShared = 0.2
		p.PAPI = 0.1
		p.PPlain = logU(r, -5.5, -3.5)
		p.PBound = 0.3
	}
	if r.p(0.25) && est > 0 {
		ng := 1 + r.n(2)
		for i := 0; i < ng; i++ {
			p.GCSteps = append(p.GCSteps, 1+int64(r.next()%uint64(est)))
		}
		if len(p.GCSteps) == 2 && p.GCSteps[0] > p.GCSteps[1] {
			p.GCSteps[0], p.GCSteps[1] = p.GCSteps[1], p.GCSteps[0]
		}
	}
	if g.clock && r.p(0.5) && est > 0 {
		// clock jumps: forwards by a millisecond .. a month, sometimes backwards
		deltas := []int64{1e6, 1e9, 61e9, 3601e9, 86401e9, 31 * 86400e9, -1e9, -3601e9}
		nj := 1 + r.n(3)
		for i := 0; i < nj; i++ {
			p.ClockSteps = append(p.ClockSteps, 1+int64(r.next()%uint64(est)))
			p.ClockDeltas = append(p.ClockDeltas, deltas[r.n(len(deltas))])
		}
		for i := 1; i < len(p.ClockSteps); i++ {
			for j := i; j > 0 && p.ClockSteps[j] < p.ClockSteps[j-1]; j-- {
				p.ClockSteps[j], p.ClockSteps[j-1] = p.ClockSteps[j-1], p.ClockSteps[j]
				p.ClockDeltas[j], p.ClockDeltas[j-1] = p.ClockDeltas[j-1], p.ClockDeltas[j]
			}
		}
	}
	rec.Policy = p
	rec.First = -1
	return rec
}

// listKey is an injective encoding of a list (length-prefixed elements): two different
// lists must never share a backing array. (A plain strings.Join key was ambiguous for
// elements containing the separator - the very defect seeded change S18 plants in the
// library; it produced a false alarm on the unchanged tree once the key-ambiguity
// families were in the corpus.)
func listKey(l []string) string {
	var b strings.Builder
	for _, s := range l {
		b.WriteString(strconv.Itoa(len(s)))
		b.WriteByte(':')
		b.WriteString(s)
	}
	return b.String()
}
