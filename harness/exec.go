//go:build simharness

package main

import (
	"fmt"
	"os"
	"runtime"
	"strconv"
	"strings"
	"sync"
	"syscall"
	"time"
	"unsafe"

	simrt "github.com/github/go-spdx/v2/zz_simrt"

	"verif/proto"
)

// ---- stdout / stderr capture ----

var (
	capFD   = -1
	capPath string
)

// redirectOutput points fds 1 and 2 at a capture file the harness owns: every byte that
// arrives there during a call was written by library code (fmt.Print*, log, println,
// raw writes). The race detector's reports are diverted with GORACE=log_path.
func redirectOutput(path string) error {
	fd, err := syscall.Open(path, syscall.O_RDWR|syscall.O_CREAT|syscall.O_TRUNC|syscall.O_APPEND, 0o644)
	if err != nil {
		return err
	}
	if err := syscall.Dup2(fd, 1); err != nil {
		return err
	}
	if err := syscall.Dup2(fd, 2); err != nil {
		return err
	}
	capFD, capPath = fd, path
	return nil
}

func capSize() int64 {
	if capFD < 0 {
		return 0
	}
	var st syscall.Stat_t
	if err := syscall.Fstat(capFD, &st); err != nil {
		return -1
	}
	return st.Size
}

func capTail(from int64) string {
	b, err := os.ReadFile(capPath)
	if err != nil || from >= int64(len(b)) {
		return ""
	}
	b = b[from:]
	if len(b) > 400 {
		b = b[:400]
	}
	return string(b)
}

// ---- race log ----

var raceLogPath string

func raceLogSize() int64 {
	if raceLogPath == "" {
		return 0
	}
	st, err := os.Stat(raceLogPath)
	if err != nil {
		return 0
	}
	return st.Size()
}

// ---- per-run execution ----

const sentinel = "\x00SPARE-CAPACITY-SENTINEL-"

type argSlice struct {
	arg  []string // what is passed (len n, cap n+spare)
	snap []string // private copy of [0:cap]
}

func mkArg(list []string, spare int) *argSlice {
	n := len(list)
	backing := make([]string, n+spare)
	snap := make([]string, n+spare)
	for i, s := range list {
		backing[i] = strings.Clone(s)
		snap[i] = strings.Clone(s)
	}
	for i := n; i < n+spare; i++ {
		backing[i] = fmt.Sprintf("%s%d", sentinel, i)
		snap[i] = fmt.Sprintf("%s%d", sentinel, i)
	}
	return &argSlice{arg: backing[:n], snap: snap}
}

func (a *argSlice) refill(list []string) {
	full := a.arg[:cap(a.arg)]
	n := len(list)
	a.snap = make([]string, len(full))
	for i := range full {
		if i < n {
			full[i] = strings.Clone(list[i])
		} else {
			full[i] = fmt.Sprintf("%s%d", sentinel, i)
		}
		a.snap[i] = strings.Clone(full[i])
	}
	a.arg = full[:n]
}

func (a *argSlice) changed() string {
	full := a.arg[:cap(a.arg)]
	if len(full) != len(a.snap) {
		return fmt.Sprintf("capacity region length %d != %d", len(full), len(a.snap))
	}
	for i := range full {
		if full[i] != a.snap[i] {
			where := "element"
			if i >= len(a.arg) {
				where = "spare-capacity element"
			}
			return fmt.Sprintf("%s %d: %q -> %q", where, i, a.snap[i], full[i])
		}
	}
	return ""
}

type retained struct {
	task, op int
	fn       string
	res      result
	fp       string
}

type taskState struct {
	inflight   *argSlice // argument slice of the call that is running right now
	inOp       int
	midFlagged bool
	inFn       string
	lastArg    *argSlice // the task's previous private argument slice (for buffer reuse)
	reused     int
	viol       []proto.Violation
	retained   []retained
	panics     int
	scribA     int
	scribR     int
	ops        int
	outBytes   int64
}

// replays must not silently drop a run
var faultIsFatal = false

type runOutcome struct {
	fault string // a fixed table of the simulator overflowed: nothing observed in this run counts
	sim   simrt.Result
	viol  []proto.Violation
	stats taskState
}

func toPolicy(p proto.PolicyRec) simrt.Policy {
	kind := map[string]int{"seq": simrt.PolSeq, "walk": simrt.PolWalk, "pct": simrt.PolPCT, "herd": simrt.PolHerd, "stall": simrt.PolStall, "quantum": simrt.PolQuantum}[p.Kind]
	return simrt.Policy{Kind: kind, Seed: p.Seed, PShared: p.PShared, PAPI: p.PAPI, PPlain: p.PPlain, PBound: p.PBound,
		Depth: p.Depth, Quantum: p.Quantum, EstSteps: p.EstSteps, HerdAt: p.HerdAt, StallTask: p.StallTask, StallOp: p.StallOp, StallStep: p.StallStep,
		GCSteps: p.GCSteps, ClockSteps: p.ClockSteps, ClockDeltas: p.ClockDeltas, First: -1}
}

func toScript(rec *proto.RunRec) simrt.Policy {
	p := simrt.Policy{Kind: simrt.PolScript, Seed: rec.Policy.Seed, First: rec.First}
	for _, e := range rec.Events {
		if e.Kind == simrt.EvStart {
			if p.First < 0 {
				p.First = int(e.Task)
			}
			continue
		}
		if e.Kind == simrt.EvUnstall {
			continue
		}
		p.Script = append(p.Script, simrt.Event{Kind: e.Kind, Task: e.Task, Next: e.Next, Op: e.Op, OpStep: e.OpStep, Site: e.Site, Step: e.Step, Arg: e.Arg})
	}
	return p
}

// execRun executes one run. free=true is the degraded mode: tasks run as ordinary
// goroutines under the Go scheduler (no simulator control), same workload and oracles.
func execRun(rec *proto.RunRec, free bool) runOutcome {
	nt := len(rec.Tasks)
	ts := make([]taskState, nt)
	// shared argument slices are built by the main goroutine before any task exists
	shared := map[int]*argSlice{}
	nops := 0
	for t := range rec.Tasks {
		for k := range rec.Tasks[t].Ops {
			op := &rec.Tasks[t].Ops[k]
			if op.ID+1 > nops {
				nops = op.ID + 1
			}
			if op.Share >= 0 && !op.NilList {
				if a, ok := shared[op.Share]; !ok {
					shared[op.Share] = mkArg(op.List, op.Spare)
				} else if !equalStrs(a.arg, op.List) {
					// two different lists in one share group would hand one call the other's
					// contents: a malformed record, never an observation about the library
					die("malformed run record: share group %d has two different lists", op.Share)
				}
			}
		}
	}
	race0 := raceLogSize()
	cap0 := capSize()
	var wg sync.WaitGroup
	body := func(id int) {
		defer wg.Done()
		st := &ts[id]
		for k := range rec.Tasks[id].Ops {
			doOp(id, &rec.Tasks[id].Ops[k], shared, st)
		}
	}
	var out runOutcome
	// while a call is in flight and its task is switched away from, look at the caller's
	// slice: a modification that is undone before the call returns is still a modification
	simrt.SwitchHook = func(task int) {
		if task < 0 || task >= len(ts) {
			return
		}
		st := &ts[task]
		if a := st.inflight; a != nil && !st.midFlagged {
			if d := a.changed(); d != "" {
				st.midFlagged = true
				st.viol = append(st.viol, proto.Violation{Class: "arg_mutated", Task: task, Op: st.inOp, Fn: st.inFn,
					Detail: "caller's slice differs WHILE the call is running (observed at a preemption point): " + d})
			}
		}
	}
	wg.Add(nt)
	if free {
		for i := 0; i < nt; i++ {
			go body(i)
		}
		done := make(chan struct{})
		go func() { wg.Wait(); close(done) }()
		select {
		case <-done:
		case <-time.After(hangTimeout):
			out.viol = append(out.viol, proto.Violation{Class: "deadlock", Task: -1, Op: -1,
				Detail: fmt.Sprintf("free-running mode: the run's calls (milliseconds each when made alone) had not all returned after %v", hangTimeout)})
			return out
		}
	} else {
		var pol simrt.Policy
		if rec.Scripted {
			pol = toScript(rec)
		} else {
			pol = toPolicy(rec.Policy)
		}
		out.sim = simrt.Run(nt, nops, pol, body)
		if f := simrt.Fault(); f != "" {
			if faultIsFatal {
				die("simulator fault: %s", f)
			}
			out.fault = f
			out.viol = nil
			return out
		}
		if out.sim.Deadlock {
			d := "every unfinished task is blocked on a library lock / once / channel and nobody can make progress"
			if out.sim.Steps > 50_000_000 {
				d = fmt.Sprintf("the run executed more than %d yields without finishing (livelock); last yield sites: %v", out.sim.Steps, simrt.LivelockSites[:16])
			}
			out.viol = append(out.viol, proto.Violation{Class: "deadlock", Task: -1, Op: -1, Detail: d})
			return out
		}
		wg.Wait()
	}
	// end-of-run monitors (main goroutine; ordered after every task by wg)
	for id := range ts {
		st := &ts[id]
		out.viol = append(out.viol, st.viol...)
		out.stats.panics += st.panics
		out.stats.scribA += st.scribA
		out.stats.scribR += st.scribR
		out.stats.reused += st.reused
		out.stats.ops += st.ops
		for _, rt := range st.retained {
			if fp := rt.res.fingerprint(); fp != rt.fp {
				out.viol = append(out.viol, proto.Violation{Class: "retained_result_changed", Task: rt.task, Op: rt.op, Fn: rt.fn,
					Detail: "a slice returned earlier (and not touched by the caller) changed by the end of the run", Expected: rt.fp, Observed: fp})
			}
		}
	}
	for gid, a := range shared {
		if d := a.changed(); d != "" {
			out.viol = append(out.viol, proto.Violation{Class: "arg_mutated", Task: -1, Op: -1,
				Detail: fmt.Sprintf("shared argument slice (group %d) differs at end of run: %s", gid, d)})
		}
	}
	if c := capSize(); c != cap0 {
		found := false
		for _, v := range out.viol {
			if v.Class == "output_written" {
				found = true
			}
		}
		if !found {
			out.viol = append(out.viol, proto.Violation{Class: "output_written", Task: -1, Op: -1,
				Detail: fmt.Sprintf("%d bytes arrived on stdout/stderr during the run", c-cap0), Observed: capTail(cap0)})
		}
	}
	if r := raceLogSize(); r != race0 {
		v := parseRaceLog(race0)
		out.viol = append(out.viol, v)
	}
	return out
}

func doOp(task int, op *proto.Op, shared map[int]*argSlice, st *taskState) {
	var a *argSlice
	var arg []string
	if hasList(op.Fn) && !op.NilList {
		if op.Share >= 0 {
			a = shared[op.Share]
		} else if op.ReuseBuf && st.lastArg != nil && cap(st.lastArg.arg) >= len(op.List) {
			// the caller refills a buffer it used for an earlier call (same slice object,
			// same backing array, new contents) - legitimate: it owns the slice
			a = st.lastArg
			a.refill(op.List)
			st.reused++
		} else {
			a = mkArg(op.List, op.Spare)
		}
		if op.Share < 0 {
			st.lastArg = a
		}
		arg = a.arg
	}
	simrt.OpBegin(int32(op.ID), int32(op.Fam))
	c0 := capSize()
	st.inflight, st.inOp, st.inFn = a, op.ID, op.Fn
	// the expression is handed over as a private heap copy: a library that rewrites string
	// bytes in place (unsafe) changes the copy, not the record
	expr := strings.Clone(op.Expr)
	outcome, res, panicked := invoke(op.Fn, expr, arg)
	st.inflight = nil
	if expr != op.Expr {
		st.viol = append(st.viol, proto.Violation{Class: "arg_mutated", Task: task, Op: op.ID, Fn: op.Fn,
			Detail: "the bytes of the caller's expression string differ after the call", Expected: strconv.Quote(op.Expr), Observed: strconv.Quote(expr)})
	}
	c1 := capSize()
	st.ops++
	if panicked {
		st.panics++
		simrt.NotePanic()
	}
	if c1 != c0 {
		st.viol = append(st.viol, proto.Violation{Class: "output_written", Task: task, Op: op.ID, Fn: op.Fn,
			Detail: fmt.Sprintf("%d bytes arrived on stdout/stderr while this call was running", c1-c0), Observed: capTail(c0)})
	}
	if a != nil {
		if d := a.changed(); d != "" {
			st.viol = append(st.viol, proto.Violation{Class: "arg_mutated", Task: task, Op: op.ID, Fn: op.Fn,
				Detail: "caller's slice differs after the call: " + d})
		}
	}
	if op.Expect != "" && outcome != op.Expect {
		st.viol = append(st.viol, proto.Violation{Class: "result_mismatch", Task: task, Op: op.ID, Fn: op.Fn,
			Detail: fmt.Sprintf("%s(%q, %q) differs from the sequential reference", op.Fn, op.Expr, op.List), Expected: op.Expect, Observed: outcome})
	}
	if res.kind != 0 || res.err != nil {
		if op.ScribbleRes && res.kind != 0 && (a == nil || !aliases(res, a)) {
			// (never through a result that shares memory with the caller's own argument: the
			// write would land in a buffer other callers may share)
			res.scribble(op.ID)
			st.scribR++
			if res.err != nil {
				st.retained = append(st.retained, retained{task, op.ID, op.Fn, result{err: res.err}, result{err: res.err}.fingerprint()})
			}
		} else if a == nil || !aliases(res, a) {
			// (a result that shares memory with the caller's own argument buffer is not
			// monitored: the caller may rewrite that buffer later)
			st.retained = append(st.retained, retained{task, op.ID, op.Fn, res, res.fingerprint()})
		}
	}
	if op.ScribbleArg && a != nil && op.Share < 0 {
		// the caller reuses its own slice for something else
		full := a.arg[:cap(a.arg)]
		for i := range full {
			full[i] = []string{"ISC", "Zlib", "NOT-A-LICENSE", "0BSD"}[(i+op.ID)%4]
		}
		st.scribA++
	}
	simrt.OpEnd(fnvStr(outcome))
}

func fnvStr(s string) uint64 { return fnv(0xcbf29ce484222325, s) }

// parseRaceLog extracts the new race reports and the top library frame of each access.
func parseRaceLog(from int64) proto.Violation {
	b, _ := os.ReadFile(raceLogPath)
	if from < int64(len(b)) {
		b = b[from:]
	}
	txt := string(b)
	v := proto.Violation{Class: "data_race", Task: -1, Op: -1, Detail: "race detector report", RaceLog: trim(txt, 6000)}
	// split into stacks: a stack starts at a line that does not begin with whitespace and
	// ends at an empty line
	first := txt
	if i := strings.Index(first, "WARNING: DATA RACE"); i >= 0 {
		first = first[i:]
		if j := strings.Index(first, "\n=================="); j >= 0 {
			first = first[:j]
		}
	}
	stacks := strings.Split(first, "\n\n")
	n := 0
	lib, sim := 0, 0
	for _, s := range stacks {
		ls := strings.Split(strings.TrimLeft(s, "=\n"), "\n")
		hdr := ""
		for _, l := range ls {
			if l != "" && !strings.HasPrefix(l, " ") && l != "WARNING: DATA RACE" {
				hdr = l
				break
			}
		}
		if !(strings.HasPrefix(hdr, "Read at") || strings.HasPrefix(hdr, "Write at") || strings.HasPrefix(hdr, "Previous ") ||
			strings.HasPrefix(hdr, "Atomic ")) {
			continue
		}
		n++
		// the innermost frame that is not standard library / runtime decides whose access it is
		top := "(stack not available)"
		for _, l := range ls {
			l2 := strings.TrimSpace(l)
			if !strings.HasPrefix(l, "  ") || strings.HasPrefix(l, "      ") || l2 == "" {
				continue
			}
			if isStdFrame(l2) {
				continue
			}
			switch {
			case strings.HasPrefix(l2, libPrefix+"zz_simrt"):
				top = "(simulator) " + l2
				sim++
			case strings.HasPrefix(l2, libPrefix):
				top = l2
				lib++
			default:
				top = "(caller) " + l2
			}
			break
		}
		v.Frames = append(v.Frames, top)
		if n == 2 {
			break
		}
	}
	if sim > 0 || lib == 0 {
		// not the library's race: a defect of the simulator/harness itself. Never a VIOLATION.
		die("race report without a library access (machinery bug):\n%s", trim(txt, 3000))
	}
	return v
}

// a frame of the Go standard library or runtime: first path element has no dot
func isStdFrame(f string) bool {
	head := f
	if i := strings.IndexByte(head, '('); i >= 0 {
		head = head[:i]
	}
	first := head
	if i := strings.IndexByte(head, '/'); i >= 0 {
		first = head[:i]
	} else if i := strings.IndexByte(head, '.'); i >= 0 {
		first = head[:i]
	}
	if first == "main" {
		return false
	}
	return !strings.Contains(first, ".")
}

var libPrefix = "github.com/github/go-spdx/v2/"

func isLibFrame(f string) bool {
	return strings.HasPrefix(f, libPrefix) && !strings.HasPrefix(f, libPrefix+"zz_simrt")
}

func trim(s string, n int) string {
	if len(s) > n {
		return s[:n] + "…"
	}
	return s
}

func gcNow() {
	runtime.GC()
	runtime.GC()
}

// aliases: does the result slice share backing memory with the argument's [0:cap]?
func aliases(r result, a *argSlice) bool {
	if r.kind != 1 || cap(r.strs) == 0 || cap(a.arg) == 0 {
		return false
	}
	rs := r.strs[:cap(r.strs)]
	as := a.arg[:cap(a.arg)]
	r0, r1 := uintptr(unsafe.Pointer(&rs[0])), uintptr(unsafe.Pointer(&rs[len(rs)-1]))
	a0, a1 := uintptr(unsafe.Pointer(&as[0])), uintptr(unsafe.Pointer(&as[len(as)-1]))
	return r0 <= a1 && a0 <= r1
}

func equalStrs(a, b []string) bool {
	if len(a) != len(b) {
		return false
	}
	for i := range a {
		if a[i] != b[i] {
			return false
		}
	}
	return true
}
