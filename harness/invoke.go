//go:build simharness

package main

import (
	"fmt"
	"strconv"
	"strings"

	"github.com/github/go-spdx/v2/spdxexp"
	"github.com/github/go-spdx/v2/spdxexp/spdxlicenses"

	"verif/proto"
)

// result of a call that the caller keeps (for the retained-result monitor and scribbling)
type result struct {
	strs   []string     // ExtractLicenses / ValidateLicenses / 1-d getters
	ranges [][][]string // LicenseRanges
	kind   int          // 0 none, 1 strs, 2 ranges
	err    error        // the error value handed to the caller (it may keep it)
}

func encStrs(s []string) string {
	if s == nil {
		return "nil" // nil and empty are distinguishable by the caller: both must be stable
	}
	var b strings.Builder
	b.WriteByte('[')
	for i, x := range s {
		if i > 0 {
			b.WriteByte(',')
		}
		b.WriteString(strconv.Quote(x))
	}
	b.WriteByte(']')
	return b.String()
}

func fnv(h uint64, s string) uint64 {
	for i := 0; i < len(s); i++ {
		h = (h ^ uint64(s[i])) * 0x100000001b3
	}
	return (h ^ 0xff) * 0x100000001b3
}

func hashStrs(s []string) string {
	h := uint64(0xcbf29ce484222325)
	for _, x := range s {
		h = fnv(h, x)
	}
	return fmt.Sprintf("n=%d h=%016x", len(s), h)
}

func hashRanges(r [][][]string) string {
	h := uint64(0xcbf29ce484222325)
	n := 0
	for _, g := range r {
		h = fnv(h, "{")
		for _, v := range g {
			h = fnv(h, "[")
			for _, x := range v {
				h = fnv(h, x)
				n++
			}
		}
	}
	return fmt.Sprintf("groups=%d n=%d h=%016x", len(r), n, h)
}

func errStr(err error) string {
	if err == nil {
		return "nil"
	}
	// dynamic type and text: both must be the same whatever happened before
	return fmt.Sprintf("err(%T):%s", err, strconv.Quote(err.Error()))
}

// invoke performs one call on the library and returns its canonical outcome. A panic is
// an outcome like any other (C13 is silent about panics; they must merely be the same
// under every schedule and history).
func invoke(fn, expr string, list []string) (outcome string, res result, panicked bool) {
	defer func() {
		if r := recover(); r != nil {
			outcome = "panic:" + strconv.Quote(fmt.Sprint(r))
			res = result{}
			panicked = true
		}
	}()
	switch fn {
	case proto.FnSatisfies:
		ok, err := spdxexp.Satisfies(expr, list)
		return fmt.Sprintf("%v|%s", ok, errStr(err)), result{err: err}, false
	case proto.FnValidate:
		ok, inv := spdxexp.ValidateLicenses(list)
		return fmt.Sprintf("%v|%s", ok, encStrs(inv)), result{strs: inv, kind: 1}, false
	case proto.FnExtract:
		out, err := spdxexp.ExtractLicenses(expr)
		return fmt.Sprintf("%s|%s", encStrs(out), errStr(err)), result{strs: out, kind: 1, err: err}, false
	case proto.FnGetLicenses:
		t := spdxlicenses.GetLicenses()
		return hashStrs(t), result{strs: t, kind: 1}, false
	case proto.FnGetDeprecated:
		t := spdxlicenses.GetDeprecated()
		return hashStrs(t), result{strs: t, kind: 1}, false
	case proto.FnGetExceptions:
		t := spdxlicenses.GetExceptions()
		return hashStrs(t), result{strs: t, kind: 1}, false
	case proto.FnLicenseRanges:
		t := spdxlicenses.LicenseRanges()
		return hashRanges(t), result{ranges: t, kind: 2}, false
	}
	panic("harness: unknown function " + fn)
}

// fingerprint of a retained result (content only)
func (r result) fingerprint() string {
	e := ""
	if r.err != nil {
		e = " " + errStr(r.err)
	}
	switch r.kind {
	case 1:
		return hashStrs(r.strs) + e
	case 2:
		return hashRanges(r.ranges) + e
	}
	return e
}

// scribble: what a caller may legitimately do with a slice it was handed back:
// overwrite it, extend it to its capacity, append to it.
func (r result) scribble(tag int) {
	switch r.kind {
	case 1:
		s := r.strs
		for i := range s {
			s[i] = "SCRIBBLED-" + strconv.Itoa(tag)
		}
		s = s[:cap(s)]
		for i := range s {
			s[i] = "SCRIBBLED-" + strconv.Itoa(tag)
		}
		s = append(s, "SCRIBBLED-APPEND")
		_ = s
	case 2:
		for _, g := range r.ranges {
			for _, v := range g {
				for i := range v {
					v[i] = "SCRIBBLED-" + strconv.Itoa(tag)
				}
			}
			for i := range g {
				g[i] = nil
			}
		}
		for i := range r.ranges {
			r.ranges[i] = nil
		}
	}
}
