//go:build simharness

package main

import (
	"strconv"
	"strings"

	"github.com/github/go-spdx/v2/spdxexp/spdxlicenses"

	"verif/proto"
)

type rnd struct{ s uint64 }

func (r *rnd) next() uint64 {
	r.s += 0x9e3779b97f4a7c15
	z := r.s
	z = (z ^ (z >> 30)) * 0xbf58476d1ce4e5b9
	z = (z ^ (z >> 27)) * 0x94d049bb133111eb
	return z ^ (z >> 31)
}
func (r *rnd) n(n int) int {
	if n <= 1 {
		return 0
	}
	return int(r.next() % uint64(n))
}
func (r *rnd) f() float64       { return float64(r.next()>>11) / float64(uint64(1)<<53) }
func (r *rnd) p(p float64) bool { return r.f() < p }
func (r *rnd) pick(s []string) string {
	return s[r.n(len(s))]
}
func mix(a ...uint64) uint64 {
	h := uint64(0x243f6a8885a308d3)
	for _, x := range a {
		h ^= x + 0x9e3779b97f4a7c15 + (h << 6) + (h >> 2)
		r := rnd{h}
		h = r.next()
	}
	return h
}

// most expressions are short; the size families go up to a few KB (size thresholds)
const maxExprLen = 6000

type term struct {
	text string // as written in an expression
	// entries for an allowed list that match / relate to this term
	allow []string
}

type corpusGen struct {
	r          *rnd
	active     []string
	deprecated []string
	exceptions []string
	ranged     [][]string // flattened version groups per license group
	calls      []proto.Call
	fam        int
	seen       map[string]bool
}

func flipCase(s string, r *rnd) string {
	switch r.n(3) {
	case 0:
		return strings.ToLower(s)
	case 1:
		return strings.ToUpper(s)
	}
	b := []byte(s)
	for i := range b {
		if r.p(0.5) {
			if b[i] >= 'a' && b[i] <= 'z' {
				b[i] -= 32
			} else if b[i] >= 'A' && b[i] <= 'Z' {
				b[i] += 32
			}
		}
	}
	return string(b)
}

// a license id that can stand alone as a term (active list minus nothing; the scanner
// accepts every active id)
func (g *corpusGen) plainID() string { return g.r.pick(g.active) }

func (g *corpusGen) rangedID() string {
	grp := g.ranged[g.r.n(len(g.ranged))]
	return g.r.pick(grp)
}

func (g *corpusGen) term() term {
	r := g.r
	switch r.n(12) {
	case 0, 1, 2:
		id := g.plainID()
		return term{id, []string{id}}
	case 3, 4:
		id := g.rangedID()
		base := strings.TrimSuffix(strings.TrimSuffix(id, "-only"), "-or-later")
		return term{id, []string{id, base, base + "+", base + "-only", base + "-or-later"}}
	case 5:
		id := g.rangedID()
		base := strings.TrimSuffix(strings.TrimSuffix(id, "-only"), "-or-later")
		return term{base + "+", []string{base, base + "+", id}}
	case 6:
		id := g.rangedID()
		base := strings.TrimSuffix(strings.TrimSuffix(id, "-only"), "-or-later")
		return term{base + "-or-later", []string{base + "-or-later", base + "+", base}}
	case 7:
		id := g.rangedID()
		base := strings.TrimSuffix(strings.TrimSuffix(id, "-only"), "-or-later")
		return term{base + "-only", []string{base + "-only", base}}
	case 8:
		id := g.plainID()
		ex := g.r.pick(g.exceptions)
		return term{id + " WITH " + ex, []string{id + " WITH " + ex, id}}
	case 9:
		n := []string{"a", "A", "custom", "Custom-1.0", "x.y", "MIT"}[r.n(6)]
		return term{"LicenseRef-" + n, []string{"LicenseRef-" + n, "LicenseRef-" + strings.ToUpper(n)}}
	case 10:
		n := []string{"a", "lic", "B"}[r.n(3)]
		d := []string{"doc", "spdx-tool-1.2", "D"}[r.n(3)]
		return term{"DocumentRef-" + d + ":LicenseRef-" + n, []string{"DocumentRef-" + d + ":LicenseRef-" + n, "LicenseRef-" + n}}
	default:
		id := g.r.pick(g.deprecated)
		return term{id, []string{id}}
	}
}

// shapes: %d placeholders are term indices; kept within the documented safe bounds
// (<= 3 AND-ed OR groups, nesting <= 8).
var shapes = []string{
	"0", "0", "(0)", "((0))",
	"0 AND 1", "0 OR 1", "0 AND 1 AND 2", "0 OR 1 OR 2",
	"0 AND 1 OR 2", "0 OR 1 AND 2", "0 AND (1 OR 2)", "(0 OR 1) AND 2",
	"(0 AND 1) OR (2 AND 3)", "(0 OR 1) AND (2 OR 3)", "0 AND (1 OR 2) AND 3",
	"0 OR (1 AND 2) OR 3", "0 AND 1 OR 2 AND 3", "0 OR 1 AND 2 OR 3",
	"((0 AND 1) OR 2)", "(((0 OR 1)))", "0 AND (1 AND (2 AND 3))", "0 OR (1 OR (2 OR (3 OR 4)))",
	"((((((((0))))))))", "(0 OR 1) AND (2 OR 3) AND (4 OR 0)", "0 AND 0", "0 OR 0 OR 1",
	"0 AND 1 AND 2 AND 3 AND 4 AND 5",
}

func (g *corpusGen) add(c proto.Call) {
	key := c.Fn + "|" + strconv.Itoa(len(c.Expr)) + ":" + c.Expr + "|" + listKey(c.List)
	if c.NilList {
		key += "\x02nil"
	}
	if g.seen[key] {
		return
	}
	if len(c.Expr) > maxExprLen {
		return
	}
	g.seen[key] = true
	c.ID = len(g.calls)
	g.calls = append(g.calls, c)
}

func subst(shape string, terms []term, sep func() string) string {
	var b strings.Builder
	for i := 0; i < len(shape); i++ {
		ch := shape[i]
		switch {
		case ch >= '0' && ch <= '9':
			b.WriteString(terms[int(ch-'0')%len(terms)].text)
		case ch == ' ':
			b.WriteString(sep())
		default:
			b.WriteByte(ch)
		}
	}
	return b.String()
}

func one() string { return " " }

func (g *corpusGen) lists(terms []term, used int) [][]string {
	r := g.r
	var all, exact []string
	for i := 0; i < used && i < len(terms); i++ {
		exact = append(exact, terms[i].allow[0])
		all = append(all, terms[i].allow...)
	}
	var out [][]string
	out = append(out, exact)
	// reversed + duplicated
	rev := make([]string, 0, len(exact)*2)
	for i := len(exact) - 1; i >= 0; i-- {
		rev = append(rev, exact[i])
	}
	rev = append(rev, exact[0])
	out = append(out, rev)
	// strict subset
	if len(exact) > 1 {
		out = append(out, append([]string{}, exact[:len(exact)-1]...))
	}
	// related spellings
	rel := []string{}
	for _, a := range all {
		if r.p(0.5) {
			rel = append(rel, a)
		}
	}
	if len(rel) > 0 {
		out = append(out, rel)
	}
	// unrelated
	out = append(out, []string{g.plainID(), g.plainID()})
	// case-folded
	cf := make([]string, len(exact))
	for i, e := range exact {
		if strings.HasPrefix(e, "LicenseRef-") || strings.HasPrefix(e, "DocumentRef-") {
			cf[i] = e
		} else {
			cf[i] = flipCase(e, r)
		}
	}
	out = append(out, cf)
	// with an invalid entry at a random position
	bad := append([]string{}, exact...)
	pos := r.n(len(bad) + 1)
	bad = append(bad[:pos], append([]string{[]string{"NOT-A-LICENSE", "MIT AND ISC", "", "GPL-2.0 +", "("}[r.n(5)]}, bad[pos:]...)...)
	out = append(out, bad)
	return out
}

func genCorpus(seed uint64, size int) *proto.Corpus {
	nSpell := 2
	if size > 4000 {
		nSpell = 5
	}
	g := &corpusGen{r: &rnd{mix(seed, 0xc0)}, seen: map[string]bool{}}
	g.active = spdxlicenses.GetLicenses()
	g.deprecated = spdxlicenses.GetDeprecated()
	g.exceptions = spdxlicenses.GetExceptions()
	for _, grp := range spdxlicenses.LicenseRanges() {
		var flat []string
		for _, v := range grp {
			flat = append(flat, v...)
		}
		if len(flat) > 0 {
			g.ranged = append(g.ranged, flat)
		}
	}
	r := g.r
	// getters: family 0
	for _, fn := range []string{proto.FnGetLicenses, proto.FnGetDeprecated, proto.FnGetExceptions, proto.FnLicenseRanges} {
		g.add(proto.Call{Fn: fn, Fam: 0, Tag: "getter"})
	}
	// fixed, always-present families (inputs that panic on the pinned tree are kept on
	// purpose: they are ordinary repeatable outcomes and serve as the caller_panic event)
	fixed := [][]string{
		{"MIT", "mit", " MIT ", "MIT ", "(MIT)", "MIT AND MIT"},
		{"Apache-2.0", "apache-2.0", "Apache-2.0+", "Apache-2.0-or-later", "Apache-2.0-only", "Apache-1.0+"},
		{"GPL-2.0", "GPL-2.0+", "GPL-2.0-or-later", "GPL-2.0-only", "gpl-2.0-ONLY", "GPL-3.0", "GPL-2.0 WITH Bison-exception-2.2", "GPL-2.0+ WITH Bison-exception-2.2"},
		{"MIT AND Apache-2.0", "Apache-2.0 AND MIT", "MIT  AND  Apache-2.0", "mit and apache-2.0", "MIT AND Apache-2.0 ", "MIT OR Apache-2.0", "MIT AND (Apache-2.0)"},
		{"LicenseRef-a", "LicenseRef-A", "DocumentRef-d:LicenseRef-a", "DocumentRef-D:LicenseRef-a", "LicenseRef-a AND MIT", "MIT OR LicenseRef-a",
			"LicenseRef-Foo AND LicenseRef-foo", "LicenseRef-foo AND LicenseRef-Foo", "LicenseRef-a AND LicenseRef-A AND LicenseRef-a",
			"DocumentRef-Vendor:LicenseRef-terms AND DocumentRef-vendor:LicenseRef-terms AND MIT", "LicenseRef-b AND LicenseRef-B AND LicenseRef-c AND LicenseRef-C"},
		{"(", "MIT WITH", "DocumentRef-a", "(LicenseRef-a OR LicenseRef-b) AND MIT OR ISC", ")", "MIT AND", "AND MIT", "MIT OR OR ISC", "(MIT", "MIT)", "()", "MIT ISC"},
		{"(MIT ISC", "(MIT ISC)", "(MIT MIT", "DocumentRef-a:MIT", "DocumentRef-a MIT", "DocumentRef-a LicenseRef-b", "DocumentRef-a AND MIT",
			"OR MIT", "MIT OR", "MIT OR )", "MIT AND AND ISC", "MIT OR AND ISC", "MIT AND OR ISC", "( OR MIT)", "(AND MIT)", "MIT AND )", "(MIT))",
			"DocumentRef-", "LicenseRef-", "LicenseRef-!", "MIT AND LicenseRef-", "DocumentRef-:LicenseRef-a", "DocumentRef-a:LicenseRef-",
			"+MIT", "MIT++", ":", "MIT:", "WITH Classpath-exception-2.0", "MIT WITH Classpath-exception-2.0 WITH Classpath-exception-2.0",
			"MIT (Apache-2.0)", "MIT LicenseRef-custom", "MIT Bison-exception-2.2", "Bison-exception-2.2", "MIT AND WITH", "(+MIT)", ":MIT"},
		{"DocumentRef-d:LicenseRef-a AND MIT", "DocumentRef-d:LicenseRef-a OR DocumentRef-e:LicenseRef-a", "DocumentRef-e:LicenseRef-a", "DocumentRef-d:LicenseRef-b",
			"MIT AND (Apache-2.0 OR ISC)", "MIT OR (Apache-2.0 AND ISC)", "(MIT AND ISC) OR (Apache-2.0 AND ISC AND Zlib)", "MIT AND ISC OR MIT AND ISC AND Zlib"},
		{"", " ", "   ", "MIT +", "MIT WITH MIT", "NOPE-1.0", "MIT AND NOPE-1.0", "NOPE-1.0 AND MIT", "Apache-2.0-or-later AND FOO", "MIT ∧ ISC", "MIT\tISC", "\xff\xfe"},
	}
	okLists := [][]string{{"MIT"}, {"Apache-2.0", "MIT"}, {"GPL-2.0+"}, {"GPL-3.0-only", "GPL-2.0 WITH Bison-exception-2.2"}, {"LicenseRef-a", "MIT"},
		{"mit", "MIT", "Mit"}, {"ISC", "NOPE-1.0"}, {"Apache-1.0+"}, {"DocumentRef-d:LicenseRef-a"}, {"DocumentRef-e:LicenseRef-a", "MIT"}, {"DocumentRef-d:LicenseRef-b", "LicenseRef-a"}, {"ISC", "MIT", "Zlib", "Apache-2.0"}}
	for _, fam := range fixed {
		g.fam++
		for _, e := range fam {
			g.add(proto.Call{Fn: proto.FnExtract, Expr: e, Fam: g.fam, Tag: "fixed"})
			g.add(proto.Call{Fn: proto.FnValidate, List: []string{e}, Fam: g.fam, Tag: "fixed"})
			for k := 0; k < 3; k++ {
				g.add(proto.Call{Fn: proto.FnSatisfies, Expr: e, List: okLists[r.n(len(okLists))], Fam: g.fam, Tag: "fixed"})
			}
		}
		g.add(proto.Call{Fn: proto.FnValidate, List: append([]string{}, fam...), Fam: g.fam, Tag: "fixed"})
	}
	g.fam++
	g.add(proto.Call{Fn: proto.FnSatisfies, Expr: "MIT", NilList: true, Fam: g.fam, Tag: "nil-list"})
	g.add(proto.Call{Fn: proto.FnSatisfies, Expr: "MIT", List: []string{}, Fam: g.fam, Tag: "empty-list"})
	g.add(proto.Call{Fn: proto.FnValidate, NilList: true, Fam: g.fam, Tag: "nil-list"})
	g.add(proto.Call{Fn: proto.FnValidate, List: []string{}, Fam: g.fam, Tag: "empty-list"})

	// long inputs: allowed lists with many entries (unsorted, duplicated), long linear
	// expressions (OR / AND chains are linear in cost)
	for k := 0; k < 4; k++ {
		g.fam++
		n := []int{9, 13, 20, 34}[k]
		long := make([]string, 0, n)
		for i := 0; i < n; i++ {
			switch r.n(6) {
			case 0:
				long = append(long, g.rangedID())
			case 1:
				if len(long) > 0 {
					long = append(long, long[r.n(len(long))]) // duplicate
					continue
				}
				fallthrough
			default:
				long = append(long, g.plainID())
			}
		}
		nt := 3 + r.n(6)
		var parts []string
		for i := 0; i < nt; i++ {
			parts = append(parts, long[r.n(len(long))])
		}
		op := []string{" OR ", " AND "}[k%2]
		e := strings.Join(parts, op)
		g.add(proto.Call{Fn: proto.FnSatisfies, Expr: e, List: long, Fam: g.fam, Tag: "long"})
		g.add(proto.Call{Fn: proto.FnSatisfies, Expr: parts[0], List: long, Fam: g.fam, Tag: "long"})
		g.add(proto.Call{Fn: proto.FnExtract, Expr: e, Fam: g.fam, Tag: "long"})
		g.add(proto.Call{Fn: proto.FnValidate, List: long, Fam: g.fam, Tag: "long"})
		withBad := append(append([]string{}, long[:n/2]...), "NOT-A-LICENSE-"+strconv.Itoa(k))
		withBad = append(withBad, long[n/2:]...)
		withBad = append(withBad, "ALSO BAD")
		g.add(proto.Call{Fn: proto.FnValidate, List: withBad, Fam: g.fam, Tag: "long"})
		g.add(proto.Call{Fn: proto.FnSatisfies, Expr: e, List: withBad, Fam: g.fam, Tag: "long"})
		// same content, reversed
		rv := make([]string, n)
		for i := range long {
			rv[n-1-i] = long[i]
		}
		g.add(proto.Call{Fn: proto.FnSatisfies, Expr: e, List: rv, Fam: g.fam, Tag: "long"})
		g.add(proto.Call{Fn: proto.FnValidate, List: rv, Fam: g.fam, Tag: "long"})
	}

	// key-ambiguity families: argument lists that collide under a naively joined cache
	// key (strings.Join(list, sep), expr+sep+list): the same text split differently
	g.joinFamilies()

	// many alternatives: expressions that expand to 8-16 OR-alternatives (a threshold a
	// "parallelise when large" optimisation would use), satisfied through the first, a
	// middle, the last alternative or not at all
	g.wideFamilies()

	// the range table, systematically: inside every licence group, questions between the
	// lowest, a middle and the highest version with and without '+'. (Ids listed in two
	// groups, thresholds after which another lookup structure is used, ...)
	g.rangeFamilies()

	// prefix families: identifiers that are a prefix of another identifier, long
	// identifiers truncated and extended (fixed-size keys, hash prefixes, tries)
	g.prefixFamilies()

	// nesting families: an expression together with its sub-expressions and with
	// expressions that contain it (caches keyed by sub-tree, shared expansions)
	g.nestingFamilies()

	// size families: inputs beyond the thresholds an optimisation might use (expression
	// length 256 / 512 / 1024 / 4096 bytes, 32 / 64 / 128 list entries, nesting depth 40)
	g.sizeFamilies()

	// flood families: tens of thousands of DISTINCT spellings in one process (unknown ids,
	// case variants of listed ids, distinct valid license strings, distinct references):
	// tables that fill up, wrap around, are reset or evicted, counters of narrow types
	g.floodFamilies(size > 4000)

	// cross-function families: the SAME list through ValidateLicenses and through
	// Satisfies (and its elements through ExtractLicenses), including lists that one
	// function accepts and the other rejects (expression entries)
	g.crossFamilies()

	// systematic spelling families: every way of writing one identifier (letter case of
	// the id and of its -only / -or-later suffix, '+', WITH), through every function and
	// in both argument positions. These are the inputs a sloppily keyed cache confuses.
	g.spellingFamilies(nSpell)

	// generated families from the tree's own tables
	for len(g.calls) < size {
		g.fam++
		nt := 1 + r.n(6)
		terms := make([]term, nt)
		for i := range terms {
			terms[i] = g.term()
		}
		shape := shapes[r.n(len(shapes))]
		used := 0
		for i := 0; i < len(shape); i++ {
			if shape[i] >= '0' && shape[i] <= '9' && int(shape[i]-'0')+1 > used {
				used = int(shape[i]-'0') + 1
			}
		}
		if used > nt {
			used = nt
		}
		base := subst(shape, terms, one)
		variants := []string{base}
		// spelling variants of the same expression
		variants = append(variants, subst(shape, terms, func() string { return []string{" ", "  ", "   "}[r.n(3)] }))
		variants = append(variants, " "+base+" ")
		if !strings.Contains(base, "LicenseRef-") {
			variants = append(variants, flipCaseKeepOps(base, r))
		}
		// neighbour: one term replaced
		t2 := append([]term{}, terms...)
		t2[r.n(len(t2))] = g.term()
		variants = append(variants, subst(shape, t2, one))
		// neighbour: other shape, same terms
		variants = append(variants, subst(shapes[r.n(len(shapes))], terms, one))
		// invalid neighbours
		switch r.n(4) {
		case 0:
			variants = append(variants, base+" AND")
		case 1:
			variants = append(variants, base+" OR NOPE-"+terms[0].text)
		case 2:
			variants = append(variants, "("+base)
		case 3:
			variants = append(variants, base[:len(base)/2])
		}
		lists := g.lists(terms, used)
		for vi, v := range variants {
			g.add(proto.Call{Fn: proto.FnExtract, Expr: v, Fam: g.fam, Tag: "gen"})
			for li, l := range lists {
				if vi == 0 || r.p(0.3) {
					g.add(proto.Call{Fn: proto.FnSatisfies, Expr: v, List: l, Fam: g.fam, Tag: "gen"})
				}
				_ = li
			}
		}
		for _, l := range lists {
			if r.p(0.5) {
				g.add(proto.Call{Fn: proto.FnValidate, List: l, Fam: g.fam, Tag: "gen"})
			}
		}
		g.add(proto.Call{Fn: proto.FnValidate, List: variants, Fam: g.fam, Tag: "gen"})
	}
	return &proto.Corpus{Seed: seed, Calls: g.calls}
}

// flip letter case of identifiers but keep the operators AND/OR/WITH upper-case (the
// scanner only knows upper-case operators).
func flipCaseKeepOps(s string, r *rnd) string {
	parts := strings.Split(s, " ")
	for i, p := range parts {
		switch p {
		case "AND", "OR", "WITH", "":
		default:
			parts[i] = flipCase(p, r)
		}
	}
	return strings.Join(parts, " ")
}

func contains(list []string, s string) bool {
	for _, x := range list {
		if x == s {
			return true
		}
	}
	return false
}

func mixedCase(s string) string {
	b := []byte(s)
	for i := range b {
		if i%2 == 0 && b[i] >= 'a' && b[i] <= 'z' {
			b[i] -= 32
		} else if i%2 == 1 && b[i] >= 'A' && b[i] <= 'Z' {
			b[i] += 32
		}
	}
	return string(b)
}

// spellingFamilies picks per identifier category `per` ids (seeded) plus a few fixed
// well-known ones and adds every spelling of each.
func (g *corpusGen) spellingFamilies(per int) {
	r := g.r
	cats := make([][]string, 6)
	inRange := map[string]bool{}
	for _, grp := range g.ranged {
		for _, id := range grp {
			inRange[id] = true
		}
	}
	for _, id := range g.active {
		switch {
		case strings.HasSuffix(id, "-only") || strings.HasSuffix(id, "-or-later"):
			cats[2] = append(cats[2], strings.TrimSuffix(strings.TrimSuffix(id, "-only"), "-or-later"))
		case inRange[id]:
			cats[3] = append(cats[3], id)
		default:
			cats[0] = append(cats[0], id)
		}
	}
	for _, id := range g.deprecated {
		if contains(g.active, id+"-or-later") || contains(g.active, id+"-only") {
			cats[1] = append(cats[1], id)
		} else {
			cats[5] = append(cats[5], id)
		}
	}
	cats[4] = g.exceptions
	chosen := []string{}
	for _, fixed := range []string{"MIT", "GPL-2.0", "Apache-2.0", "ISC", "LGPL-3.0"} {
		if contains(g.active, fixed) || contains(g.deprecated, fixed) {
			chosen = append(chosen, fixed)
		}
	}
	for _, c := range cats {
		for k := 0; k < per && len(c) > 0; k++ {
			id := c[r.n(len(c))]
			if !contains(chosen, id) {
				chosen = append(chosen, id)
			}
		}
	}
	exc := "Classpath-exception-2.0"
	if !contains(g.exceptions, exc) && len(g.exceptions) > 0 {
		exc = g.exceptions[0]
	}
	for _, b := range chosen {
		g.fam++
		lo, up, mx := strings.ToLower(b), strings.ToUpper(b), mixedCase(b)
		sp := []string{b, lo, up, mx, b + "+", lo + "+", b + " +",
			b + "-only", b + "-ONLY", b + "-Only", lo + "-only", up + "-ONLY",
			b + "-or-later", b + "-OR-LATER", b + "-Or-Later", lo + "-or-later",
			b + "-only+", b + "-or-later+",
			b + " WITH " + exc, b + "+ WITH " + exc, b + " with " + exc, b + " WITH " + strings.ToLower(exc), b + "-only WITH " + exc}
		for i, s := range sp {
			g.add(proto.Call{Fn: proto.FnExtract, Expr: s, Fam: g.fam, Tag: "spell"})
			g.add(proto.Call{Fn: proto.FnValidate, List: []string{s}, Fam: g.fam, Tag: "spell"})
			g.add(proto.Call{Fn: proto.FnSatisfies, Expr: s, List: []string{b}, Fam: g.fam, Tag: "spell"})
			if i%2 == 0 {
				g.add(proto.Call{Fn: proto.FnSatisfies, Expr: b, List: []string{s}, Fam: g.fam, Tag: "spell"})
			} else {
				g.add(proto.Call{Fn: proto.FnSatisfies, Expr: s, List: []string{s, b + "+"}, Fam: g.fam, Tag: "spell"})
			}
		}
		g.add(proto.Call{Fn: proto.FnValidate, List: sp, Fam: g.fam, Tag: "spell"})
	}
}

var joinSeps = []string{",", " ", "|", ";", "\n", "\x00", "/", ":", "", ", ", "\t", "+"}

func (g *corpusGen) joinFamilies() {
	r := g.r
	bases := [][]string{{"BSD-3-Clause", "Zlib"}, {"MIT", "Apache-2.0", "ISC"}, {g.plainID(), g.plainID()}, {g.rangedID(), g.plainID(), g.plainID()}, {"LicenseRef-a", "MIT"}}
	for _, l := range bases {
		g.fam++
		expr := strings.Join(l, " OR ")
		g.add(proto.Call{Fn: proto.FnSatisfies, Expr: expr, List: l, Fam: g.fam, Tag: "join"})
		g.add(proto.Call{Fn: proto.FnSatisfies, Expr: l[0], List: l, Fam: g.fam, Tag: "join"})
		g.add(proto.Call{Fn: proto.FnValidate, List: l, Fam: g.fam, Tag: "join"})
		for _, sep := range joinSeps {
			// everything joined into one element; first two joined; last two joined
			one := []string{strings.Join(l, sep)}
			cands := [][]string{one}
			if len(l) > 2 {
				cands = append(cands, append([]string{l[0] + sep + l[1]}, l[2:]...), append(append([]string{}, l[:len(l)-2]...), l[len(l)-2]+sep+l[len(l)-1]))
			}
			for _, c := range cands {
				g.add(proto.Call{Fn: proto.FnSatisfies, Expr: expr, List: c, Fam: g.fam, Tag: "join"})
				g.add(proto.Call{Fn: proto.FnSatisfies, Expr: l[0], List: c, Fam: g.fam, Tag: "join"})
				if r.p(0.5) {
					g.add(proto.Call{Fn: proto.FnValidate, List: c, Fam: g.fam, Tag: "join"})
				}
			}
			// boundary between the expression and the list
			g.add(proto.Call{Fn: proto.FnSatisfies, Expr: l[0] + sep + l[1], List: l[1:], Fam: g.fam, Tag: "join"})
			g.add(proto.Call{Fn: proto.FnSatisfies, Expr: l[0] + sep + l[0], List: l[1:], Fam: g.fam, Tag: "join"})
		}
	}
}

func (g *corpusGen) wideFamilies() {
	r := g.r
	for k := 0; k < 4; k++ {
		g.fam++
		n := []int{8, 9, 13, 16}[k]
		ids := make([]string, 0, n)
		for len(ids) < n {
			id := g.plainID()
			if !contains(ids, id) {
				ids = append(ids, id)
			}
		}
		chain := strings.Join(ids, " OR ")
		// 2 x 2 x 2 (x 2) alternatives through AND-ed OR groups
		grid := "(" + ids[0] + " OR " + ids[1] + ") AND (" + ids[2] + " OR " + ids[3] + ") AND (" + ids[4] + " OR " + ids[5] + ")"
		other := g.plainID()
		lists := [][]string{{ids[0]}, {ids[n/2]}, {ids[n-1]}, {other}, {ids[n-1], other, ids[0]}, ids, {ids[0], ids[2], ids[4]}, {ids[1], ids[3], ids[5]}, {ids[0], ids[3]}}
		for _, l := range lists {
			g.add(proto.Call{Fn: proto.FnSatisfies, Expr: chain, List: l, Fam: g.fam, Tag: "wide"})
			g.add(proto.Call{Fn: proto.FnSatisfies, Expr: grid, List: l, Fam: g.fam, Tag: "wide"})
		}
		g.add(proto.Call{Fn: proto.FnExtract, Expr: chain, Fam: g.fam, Tag: "wide"})
		g.add(proto.Call{Fn: proto.FnExtract, Expr: grid, Fam: g.fam, Tag: "wide"})
		g.add(proto.Call{Fn: proto.FnValidate, List: ids, Fam: g.fam, Tag: "wide"})
		_ = r
	}
}

func (g *corpusGen) rangeFamilies() {
	for _, grp := range spdxlicenses.LicenseRanges() {
		var reps []string // one representative per version sub-group: first entry
		for _, v := range grp {
			if len(v) > 0 {
				reps = append(reps, v[0])
			}
		}
		if len(reps) < 2 {
			continue
		}
		g.fam++
		pick := []string{reps[0], reps[len(reps)/2], reps[len(reps)-1]}
		for i, a := range pick {
			for j, b := range pick {
				if i == j {
					continue
				}
				g.add(proto.Call{Fn: proto.FnSatisfies, Expr: a + "+", List: []string{b}, Fam: g.fam, Tag: "range"})
				g.add(proto.Call{Fn: proto.FnSatisfies, Expr: a, List: []string{b + "+"}, Fam: g.fam, Tag: "range"})
			}
		}
		g.add(proto.Call{Fn: proto.FnSatisfies, Expr: pick[0] + "+", List: []string{"MIT", pick[2]}, Fam: g.fam, Tag: "range"})
		g.add(proto.Call{Fn: proto.FnSatisfies, Expr: "MIT OR " + pick[0] + "+", List: []string{pick[2]}, Fam: g.fam, Tag: "range"})
	}
}

func (g *corpusGen) prefixFamilies() {
	r := g.r
	all := append(append(append([]string{}, g.active...), g.deprecated...), g.exceptions...)
	type pair struct{ a, b string }
	var pairs []pair
	for _, a := range all {
		if len(a) < 6 {
			continue
		}
		la := strings.ToLower(a)
		for _, b := range all {
			if len(b) > len(a) && strings.HasPrefix(strings.ToLower(b), la) {
				pairs = append(pairs, pair{a, b})
			}
		}
	}
	// all pairs whose common prefix is long, a seeded sample of the rest
	var chosen []pair
	for _, p := range pairs {
		if len(p.a) >= 20 || r.p(0.08) {
			chosen = append(chosen, p)
		}
	}
	if len(chosen) > 60 {
		chosen = chosen[:60]
	}
	addPair := func(a, b string) {
		g.fam++
		for _, x := range []string{a, b} {
			g.add(proto.Call{Fn: proto.FnExtract, Expr: x, Fam: g.fam, Tag: "prefix"})
			g.add(proto.Call{Fn: proto.FnValidate, List: []string{x}, Fam: g.fam, Tag: "prefix"})
		}
		g.add(proto.Call{Fn: proto.FnSatisfies, Expr: a, List: []string{b}, Fam: g.fam, Tag: "prefix"})
		g.add(proto.Call{Fn: proto.FnSatisfies, Expr: b, List: []string{a}, Fam: g.fam, Tag: "prefix"})
		g.add(proto.Call{Fn: proto.FnValidate, List: []string{a, b}, Fam: g.fam, Tag: "prefix"})
	}
	for _, p := range chosen {
		addPair(p.a, p.b)
	}
	// long identifiers: truncations and bogus extensions
	n := 0
	for _, id := range all {
		if len(id) < 24 || n >= 25 {
			continue
		}
		n++
		for _, v := range []string{id + "x", id + "-Of-Any-Kind", id + "-rev", id[:len(id)-1], id[:16], id[:len(id)/2]} {
			addPair(id, v)
		}
		if len(id) > 32 {
			addPair(id, id[:32])
			addPair(id, id[:31])
		}
	}
}

func (g *corpusGen) nestingFamilies() {
	for k := 0; k < 4; k++ {
		g.fam++
		ids := make([]string, 0, 5)
		for len(ids) < 5 {
			id := g.plainID()
			if !contains(ids, id) {
				ids = append(ids, id)
			}
		}
		A, B, C, D, E := ids[0], ids[1], ids[2], ids[3], ids[4]
		exprs := []string{
			A + " AND " + B, "(" + A + " AND " + B + ") AND " + C, "(" + A + " AND " + B + ") AND (" + C + " OR " + D + ")",
			C + " AND (" + A + " AND " + B + ")", "(" + A + " AND " + B + ") OR " + C, "(" + A + " OR " + B + ") AND " + C,
			A + " OR " + B, "(" + A + " OR " + B + ") OR " + C, "((" + A + " AND " + B + ") AND " + C + ") AND " + D,
			A + " AND " + B + " AND " + C, "(" + A + " AND " + B + ") AND " + E,
			A + " AND " + B + " OR " + C, A + " OR " + B + " AND " + C, A + " AND (" + B + " OR " + C + ")", B + " AND " + A, B + " OR " + A, "(" + A + " OR " + B + ") AND (" + C + " OR " + D + ")",
			"(" + A + " OR " + B + ") AND " + E, A, C,
		}
		lists := [][]string{{A, B}, {A, B, C}, {A, C}, {B, C, D}, {A, B, C, D, E}}
		for _, e := range exprs {
			g.add(proto.Call{Fn: proto.FnExtract, Expr: e, Fam: g.fam, Tag: "nest"})
			for _, l := range lists {
				g.add(proto.Call{Fn: proto.FnSatisfies, Expr: e, List: l, Fam: g.fam, Tag: "nest"})
			}
		}
		g.add(proto.Call{Fn: proto.FnValidate, List: exprs, Fam: g.fam, Tag: "nest"})
	}
}

func (g *corpusGen) sizeFamilies() {
	r := g.r
	// very long lists of cheap entries (the first id of the table is found at once), with
	// invalid entries at the first, a middle and the last position: chunked or parallel
	// walks must still report them in argument order (thresholds 64 / 128 / 256 / 512 / 1024)
	cheap := g.active[0]
	for _, n := range []int{70, 140, 300, 600, 1100} {
		g.fam++
		l := make([]string, n)
		for i := range l {
			l[i] = cheap
		}
		ok := append([]string{}, l...)
		l[0], l[n/2], l[n-1] = "NOT-A-LICENSE-FIRST", "NOT-A-LICENSE-MIDDLE", "NOT-A-LICENSE-LAST"
		two := append([]string{}, ok...)
		two[1], two[n-2] = "BAD ONE", "BAD-TWO"
		g.add(proto.Call{Fn: proto.FnValidate, List: ok, Fam: g.fam, Tag: "size"})
		g.add(proto.Call{Fn: proto.FnValidate, List: l, Fam: g.fam, Tag: "size"})
		g.add(proto.Call{Fn: proto.FnValidate, List: two, Fam: g.fam, Tag: "size"})
		g.add(proto.Call{Fn: proto.FnSatisfies, Expr: cheap, List: ok, Fam: g.fam, Tag: "size"})
		g.add(proto.Call{Fn: proto.FnSatisfies, Expr: cheap, List: l, Fam: g.fam, Tag: "size"})
		g.add(proto.Call{Fn: proto.FnSatisfies, Expr: cheap, List: two, Fam: g.fam, Tag: "size"})
	}
	uniq := func(n int) []string {
		ids := make([]string, 0, n)
		for len(ids) < n {
			id := g.plainID()
			if !contains(ids, id) {
				ids = append(ids, id)
			}
		}
		return ids
	}
	for k, n := range []int{20, 40, 70} {
		g.fam++
		ids := uniq(n)
		orChain := strings.Join(ids, " OR ")
		andChain := strings.Join(ids, " AND ")
		padded := strings.Repeat(" ", 300*(k+1)) + ids[0] + strings.Repeat(" ", 300*(k+1)) + "AND" + strings.Repeat(" ", 40) + ids[1]
		deep := strings.Repeat("(", 15*(k+1)) + ids[0] + " OR " + ids[1] + strings.Repeat(")", 15*(k+1))
		last := []string{ids[n-1]}
		for _, e := range []string{orChain, andChain, padded, deep} {
			g.add(proto.Call{Fn: proto.FnExtract, Expr: e, Fam: g.fam, Tag: "size"})
			g.add(proto.Call{Fn: proto.FnSatisfies, Expr: e, List: last, Fam: g.fam, Tag: "size"})
			g.add(proto.Call{Fn: proto.FnSatisfies, Expr: e, List: []string{ids[0], ids[1]}, Fam: g.fam, Tag: "size"})
		}
		g.add(proto.Call{Fn: proto.FnSatisfies, Expr: andChain, List: ids, Fam: g.fam, Tag: "size"})
		g.add(proto.Call{Fn: proto.FnValidate, List: []string{orChain, andChain, padded}, Fam: g.fam, Tag: "size"})
	}
	for _, n := range []int{33, 65, 129} {
		g.fam++
		ids := uniq(n)
		// duplicates and one invalid entry inside
		l := append([]string{}, ids...)
		l[n/3] = l[0]
		l[n/2] = "NOT-A-LICENSE-" + strconv.Itoa(n)
		l[n-1] = "ALSO-NOT-A-LICENSE-" + strconv.Itoa(n)
		l[1] = "FIRST BAD ENTRY"
		g.add(proto.Call{Fn: proto.FnValidate, List: ids, Fam: g.fam, Tag: "size"})
		g.add(proto.Call{Fn: proto.FnValidate, List: l, Fam: g.fam, Tag: "size"})
		g.add(proto.Call{Fn: proto.FnSatisfies, Expr: ids[n-1], List: ids, Fam: g.fam, Tag: "size"})
		g.add(proto.Call{Fn: proto.FnSatisfies, Expr: ids[n-1] + " AND " + ids[0], List: ids, Fam: g.fam, Tag: "size"})
		g.add(proto.Call{Fn: proto.FnSatisfies, Expr: ids[1], List: l, Fam: g.fam, Tag: "size"})
		_ = r
	}
}

// floodFamilies: calls whose only purpose is to push many distinct strings through the
// library's lookups. Every string occurs in exactly one list. Tag "flood": the sequential
// passes execute them like any other call (the soak pass only in some of its cycles); the
// workload generator uses the small ones, rarely, as a task that runs alongside others.
func (g *corpusGen) floodFamilies(full bool) {
	nUnknown, nCase, nValid, nRef := 68, 8, 8, 4
	if !full {
		nUnknown, nCase, nValid, nRef = 4, 2, 3, 1
	}
	hold := map[string]bool{} // ids kept out of every flood list: the expressions asked against them
	var asks []string
	for _, id := range g.active {
		if len(asks) < 4 && len(id) >= 3 && !strings.HasSuffix(id, "-only") && !strings.HasSuffix(id, "-or-later") && !strings.ContainsAny(id, "+") {
			asks = append(asks, id)
			hold[id] = true
		}
	}
	// (a) unknown identifiers, never repeated (more than 2^16 of them in a full corpus)
	ctr := 0
	for k := 0; k < nUnknown; k++ {
		g.fam++
		n := 1000
		if k%17 == 3 {
			n = 250 // small ones: usable as a flooding task in simulated runs
		}
		l := make([]string, n)
		for i := range l {
			switch k % 4 {
			case 0, 1:
				l[i] = "zz-flood-" + strconv.Itoa(ctr)
			case 2:
				l[i] = "Flood" + strconv.Itoa(ctr) + "-1.0+"
			default:
				l[i] = "flood." + strconv.Itoa(ctr) + "-only"
			}
			ctr++
		}
		g.add(proto.Call{Fn: proto.FnValidate, List: l, Fam: g.fam, Tag: "flood"})
	}
	// (b) letter-case variants of listed identifiers (valid, found by the case-insensitive walk)
	var longIDs []string
	for _, id := range g.active {
		letters := 0
		for i := 0; i < len(id); i++ {
			if c := id[i] | 0x20; c >= 'a' && c <= 'z' {
				letters++
			}
		}
		if letters >= 11 && !hold[id] {
			longIDs = append(longIDs, id)
		}
	}
	v := 1
	for k := 0; k < nCase && len(longIDs) > 0; k++ {
		g.fam++
		n := 1000
		if k == 1 {
			n = 250
		}
		l := make([]string, n)
		for i := range l {
			id := []byte(longIDs[(k*1000+i)%len(longIDs)])
			bits, bit := v, 0
			for j := range id {
				if c := id[j] | 0x20; c >= 'a' && c <= 'z' {
					if bits>>(bit%10)&1 == 1 {
						id[j] ^= 0x20
					}
					bit++
				}
			}
			l[i] = string(id)
			if (k*1000+i)%len(longIDs) == len(longIDs)-1 {
				v++ // next round over the ids: another case pattern (1..1023 patterns over >= 11 letters)
			}
		}
		g.add(proto.Call{Fn: proto.FnValidate, List: l, Fam: g.fam, Tag: "flood"})
		g.add(proto.Call{Fn: proto.FnSatisfies, Expr: asks[k%len(asks)], List: l, Fam: g.fam, Tag: "flood"})
	}
	// (c) distinct VALID license strings: listed ids, ids with '+', ids WITH an exception
	var pool []string
	for _, id := range g.active {
		if !hold[id] {
			pool = append(pool, id)
		}
	}
	nv := 0
	nextValid := func() string {
		i := nv
		nv++
		id := pool[i%len(pool)]
		switch round := i / len(pool); {
		case round == 0:
			return id
		case round == 1 && !strings.HasSuffix(id, "-only") && !strings.HasSuffix(id, "-or-later"):
			return id + "+"
		default:
			return id + " WITH " + g.exceptions[(i/len(pool)+i)%len(g.exceptions)]
		}
	}
	for k, n := range []int{300, 520, 600, 1100, 250, 1100, 1100, 1100}[:nValid] {
		g.fam++
		l := make([]string, n)
		for i := range l {
			l[i] = nextValid()
		}
		ask := asks[k%len(asks)]
		g.add(proto.Call{Fn: proto.FnValidate, List: l, Fam: g.fam, Tag: "flood"})
		g.add(proto.Call{Fn: proto.FnSatisfies, Expr: ask, List: l, Fam: g.fam, Tag: "flood"})                   // not in the list
		g.add(proto.Call{Fn: proto.FnSatisfies, Expr: l[n-1], List: l, Fam: g.fam, Tag: "flood"})                // the last entry
		g.add(proto.Call{Fn: proto.FnSatisfies, Expr: ask + " OR " + l[n/2], List: l, Fam: g.fam, Tag: "flood"}) // second alternative, middle entry
		g.add(proto.Call{Fn: proto.FnSatisfies, Expr: ask + " AND " + l[0], List: l, Fam: g.fam, Tag: "flood"})  // one of two missing
		or := strings.Join(l[:120], " OR ")
		g.add(proto.Call{Fn: proto.FnExtract, Expr: or, Fam: g.fam, Tag: "flood"})
		g.add(proto.Call{Fn: proto.FnSatisfies, Expr: or, List: []string{ask}, Fam: g.fam, Tag: "flood"})
	}
	// (d) distinct user-defined references
	rc := 0
	for k := 0; k < nRef; k++ {
		g.fam++
		n := 1000
		if k == 0 {
			n = 250
		}
		l := make([]string, n)
		for i := range l {
			if k%2 == 0 {
				l[i] = "LicenseRef-flood-" + strconv.Itoa(rc)
			} else {
				l[i] = "DocumentRef-flood" + strconv.Itoa(rc%97) + ":LicenseRef-f" + strconv.Itoa(rc)
			}
			rc++
		}
		g.add(proto.Call{Fn: proto.FnValidate, List: l, Fam: g.fam, Tag: "flood"})
		g.add(proto.Call{Fn: proto.FnSatisfies, Expr: l[n-1], List: l, Fam: g.fam, Tag: "flood"})
		g.add(proto.Call{Fn: proto.FnSatisfies, Expr: "LicenseRef-flood-none OR " + l[n/3], List: l, Fam: g.fam, Tag: "flood"})
	}
}

func (g *corpusGen) crossFamilies() {
	a, b := g.plainID(), g.plainID()
	lists := [][]string{
		{"MIT AND ISC"}, {"MIT", "MIT AND ISC"}, {"MIT AND ISC", "MIT"}, {"MIT OR Apache-2.0", "ISC"}, {"(MIT)", "ISC"}, {"ISC", "(MIT AND ISC)"},
		{"GPL-2.0+", "MIT"}, {"GPL-2.0-or-later", "MIT"}, {"GPL-2.0", "GPL-2.0+"}, {"MIT WITH Classpath-exception-2.0", "MIT"}, {"GPL-2.0-only WITH Classpath-exception-2.0"},
		{" MIT ", "ISC"}, {"MIT", "mit"}, {"LicenseRef-a", "MIT"}, {"DocumentRef-d:LicenseRef-a"}, {"NOPE-1.0", "MIT"}, {"MIT", "NOPE-1.0"},
		{a, b}, {a + " AND " + b}, {a + " OR " + b, a}, {a, a}, {a + "+", b}, {"MIT", ""}, {"(", "MIT"},
	}
	exprs := []string{"MIT", "ISC", "MIT AND ISC", "MIT OR ISC", "GPL-2.0", "GPL-3.0-only", a, a + " AND " + b, a + " OR " + b}
	for _, l := range lists {
		g.fam++
		g.add(proto.Call{Fn: proto.FnValidate, List: l, Fam: g.fam, Tag: "cross"})
		for _, e := range exprs {
			g.add(proto.Call{Fn: proto.FnSatisfies, Expr: e, List: l, Fam: g.fam, Tag: "cross"})
		}
		for _, x := range l {
			g.add(proto.Call{Fn: proto.FnExtract, Expr: x, Fam: g.fam, Tag: "cross"})
			g.add(proto.Call{Fn: proto.FnSatisfies, Expr: x, List: l, Fam: g.fam, Tag: "cross"})
			g.add(proto.Call{Fn: proto.FnSatisfies, Expr: x, List: []string{"MIT", "ISC", a, b}, Fam: g.fam, Tag: "cross"})
			g.add(proto.Call{Fn: proto.FnValidate, List: []string{x}, Fam: g.fam, Tag: "cross"})
		}
	}
}
