//go:build simharness

// Command harness is linked against a scratch copy of the library under test (either
// instrumented with simulator yields or verbatim) and runs in one of these modes:
//
//	corpus   generate the call corpus from the seed and the tree's own tables
//	oracle   execute calls sequentially, one at a time (the reference)
//	sim      seeded simulated runs
//	records  print the run records (workload + policy) of runs [from,to) without executing
//	replay   execute a replay file
package main

import (
	"encoding/json"
	"flag"
	"fmt"
	"os"
	"runtime"
	"runtime/debug"
	"sort"
	"strconv"
	"strings"
	"syscall"
	"time"

	simrt "github.com/github/go-spdx/v2/zz_simrt"

	"verif/proto"
)

func die(f string, a ...any) {
	msg := fmt.Sprintf(f, a...)
	if outPath != "" {
		b, _ := json.Marshal(proto.ProcResult{Error: msg})
		os.WriteFile(outPath, b, 0o644)
	}
	fmt.Fprintln(os.Stderr, "harness: "+msg)
	os.Exit(4)
}

var outPath string

var progFD = -1

var soakCalls = 70000

// progress appends one line to the progress file (a crashed process leaves it behind)
func progress(s string) {
	if progFD >= 0 {
		syscall.Write(progFD, []byte(s+"\n"))
	}
}

// a call of the bounded corpus takes milliseconds; one that has not returned after this
// long is blocked
const hangTimeout = 10 * time.Second

func readJSON(path string, v any) {
	b, err := os.ReadFile(path)
	if err != nil {
		die("%v", err)
	}
	if err := json.Unmarshal(b, v); err != nil {
		die("%s: %v", path, err)
	}
}

func writeJSON(path string, v any) {
	b, err := json.Marshal(v)
	if err != nil {
		die("%v", err)
	}
	if err := os.WriteFile(path+".tmp", b, 0o644); err != nil {
		die("%v", err)
	}
	if err := os.Rename(path+".tmp", path); err != nil {
		die("%v", err)
	}
}

func main() {
	if len(os.Args) < 2 {
		die("usage: harness MODE flags")
	}
	mode := os.Args[1]
	fs := flag.NewFlagSet(mode, flag.ExitOnError)
	seed := fs.Uint64("seed", 1, "VERIF_SEED")
	proc := fs.Int("proc", 0, "process index")
	runs := fs.Int("runs", 100, "number of runs")
	from := fs.Int("from", 0, "records: first run index")
	corpusPath := fs.String("corpus", "", "corpus file")
	expPath := fs.String("expected", "", "expected file")
	size := fs.Int("size", 400, "corpus size")
	order := fs.String("order", "canonical", "oracle order: canonical|reverse|shuffle")
	ids := fs.String("ids", "", "oracle: comma-separated call ids (default all)")
	recPath := fs.String("rec", "", "replay file")
	build := fs.String("build", "plain", "build label")
	capFile := fs.String("capture", "", "capture file for fd 1/2")
	maxStep := fs.Int64("maxstep", 600000, "drop calls longer than this many yields")
	free := fs.Bool("free", false, "degraded mode: free-running goroutines, no simulator control")
	wantSigs := fs.Bool("sigs", false, "include every run signature in the result")
	budgetMs := fs.Int64("budget-ms", 0, "stop after this much wall time (0 = none)")
	searchN := fs.Int("search", 0, "replay: instead of the recorded schedule try this many seeded schedules of the recorded workload")
	searchOff := fs.Int("search-offset", 0, "replay -search: first schedule number")
	clock := fs.Bool("clock", false, "the library reads the (simulated) clock: inject clock jumps")
	fs.IntVar(&soakCalls, "soak", 70000, "oracle -order soak: number of calls to make in the one process")
	progPath := fs.String("progress", "", "progress file (one line per started call / run) for post-mortem of a crashed process")
	fs.StringVar(&outPath, "out", "", "result file")
	fs.Parse(os.Args[2:])

	// the bounded corpus needs a few KB of stack; a runaway recursion (corrupted shared
	// state) should die quickly rather than after filling 1 GB
	debug.SetMaxStack(48 << 20)
	if v := os.Getenv("VERIF_RACELOG"); v != "" {
		raceLogPath = v + "." + strconv.Itoa(os.Getpid())
	}
	if *progPath != "" {
		fd, err := syscall.Open(*progPath, syscall.O_WRONLY|syscall.O_CREAT|syscall.O_TRUNC|syscall.O_APPEND, 0o644)
		if err != nil {
			die("progress: %v", err)
		}
		progFD = fd
	}
	if *capFile != "" {
		if err := redirectOutput(*capFile); err != nil {
			die("redirect: %v", err)
		}
	}
	switch mode {
	case "corpus":
		c := genCorpus(*seed, *size)
		writeJSON(outPath, c)
	case "oracle":
		var c proto.Corpus
		readJSON(*corpusPath, &c)
		runOracle(&c, *order, *ids, *seed, *free, *budgetMs)
	case "records":
		var c proto.Corpus
		var e proto.Expected
		readJSON(*corpusPath, &c)
		readJSON(*expPath, &e)
		g := newWgen(&c, &e, *maxStep)
		g.clock = *clock
		var recs []proto.RunRec
		for i := *from; i < *from+*runs; i++ {
			recs = append(recs, g.run(*seed, *proc, i))
		}
		writeJSON(outPath, recs)
	case "sim":
		var c proto.Corpus
		var e proto.Expected
		readJSON(*corpusPath, &c)
		readJSON(*expPath, &e)
		slim(&c, &e)
		runSim(&c, &e, *seed, *proc, *runs, *build, *maxStep, *free, *wantSigs, *budgetMs, *clock)
	case "replay":
		var rec proto.Record
		readJSON(*recPath, &rec)
		runReplay(&rec, *build, *free, *searchN, *searchOff)
	default:
		die("unknown mode %s", mode)
	}
}

func runOracle(c *proto.Corpus, order, ids string, seed uint64, free bool, budgetMs int64) {
	var sel []int
	if ids != "" {
		for _, s := range strings.Split(ids, ",") {
			n, err := strconv.Atoi(s)
			if err != nil || n < 0 || n >= len(c.Calls) {
				die("bad id %q", s)
			}
			sel = append(sel, n)
		}
	} else {
		for i := range c.Calls {
			sel = append(sel, i)
		}
	}
	switch order {
	case "canonical":
	case "reverse":
		for i, j := 0, len(sel)-1; i < j; i, j = i+1, j-1 {
			sel[i], sel[j] = sel[j], sel[i]
		}
	case "shuffle":
		r := &rnd{mix(seed, 0x0a)}
		// with repeats: every call 2x, shuffled
		sel = append(sel, sel...)
		for i := len(sel) - 1; i > 0; i-- {
			j := r.n(i + 1)
			sel[i], sel[j] = sel[j], sel[i]
		}
	case "soak":
		// long-lived process: cycle through the calls (each cycle in another seeded order)
		// until soakCalls calls have been made in this one process
		r := &rnd{mix(seed, 0x50a6)}
		base := append([]int{}, sel...)
		sel = sel[:0]
		for cycle := 0; len(sel) < soakCalls; cycle++ {
			for i := len(base) - 1; i > 0; i-- {
				j := r.n(i + 1)
				base[i], base[j] = base[j], base[i]
			}
			if cycle%8 == 0 {
				sel = append(sel, base...)
				continue
			}
			// the flood calls (tens of ms each) take part in every eighth cycle only
			for _, id := range base {
				if c.Calls[id].Tag != "flood" {
					sel = append(sel, id)
				}
			}
		}
		sel = sel[:soakCalls]
	default:
		die("bad order")
	}
	out := proto.OracleOut{Order: order, Hung: -1}
	if b, err := json.Marshal(sel); err == nil {
		progress(string(b))
	}
	// steps are measured by running each call as a one-task simulated run when the build
	// is instrumented (seq policy: no preemption)
	c0 := capSize()
	t0 := time.Now()
	for si, id := range sel {
		if order == "soak" && budgetMs > 0 && si%64 == 0 && time.Since(t0).Milliseconds() > budgetMs {
			// a tree whose calls are slow: the soak pass is as long as the time allows
			// (every call it did make is still compared with the call alone)
			break
		}
		progress(strconv.Itoa(si))
		call := c.Calls[id]
		var a *argSlice
		var arg []string
		if hasList(call.Fn) && !call.NilList {
			a = mkArg(call.List, 2)
			arg = a.arg
		}
		var outcome string
		var steps int64
		if simrt.Instrumented && !free {
			r := simrt.Run(1, 1, simrt.Policy{Kind: simrt.PolSeq, First: -1}, func(int) {
				simrt.OpBegin(0, 0)
				outcome, _, _ = invoke(call.Fn, call.Expr, arg)
				simrt.OpEnd(0)
			})
			steps = r.Steps
			if f := simrt.Fault(); f != "" {
				// beyond the simulator's fixed tables: goroutines ran unmanaged, the
				// observation of this call does not count
				simrt.ClearFault()
				r.Deadlock = false
				steps = proto.StepsBeyondSimulator
			}
			if r.Deadlock {
				out.IDs = append(out.IDs, id)
				out.Outcomes = append(out.Outcomes, "hung")
				out.Steps = append(out.Steps, steps)
				out.Hung = len(out.IDs) - 1
				break
			}
		} else {
			// each call on its own goroutine with a generous watchdog, so that a call that
			// blocks forever (a lock left behind by an earlier call) is an observation and
			// not a crash of the oracle
			done := make(chan string, 1)
			exprCopy := strings.Clone(call.Expr)
			go func() {
				o, _, _ := invoke(call.Fn, exprCopy, arg)
				done <- o
			}()
			select {
			case outcome = <-done:
				if exprCopy != call.Expr {
					out.ArgMut = append(out.ArgMut, fmt.Sprintf("call %d %s(%q): the bytes of the caller's expression string changed to %q", id, call.Fn, call.Expr, exprCopy))
				}
			case <-time.After(hangTimeout):
				out.IDs = append(out.IDs, id)
				out.Outcomes = append(out.Outcomes, "hung")
				out.Steps = append(out.Steps, 0)
				out.Hung = len(out.IDs) - 1
			}
			if out.Hung >= 0 {
				break
			}
		}
		if a != nil {
			if d := a.changed(); d != "" {
				out.ArgMut = append(out.ArgMut, fmt.Sprintf("call %d %s(%q,%q): %s", id, call.Fn, call.Expr, call.List, d))
			}
		}
		out.IDs = append(out.IDs, id)
		out.Outcomes = append(out.Outcomes, outcome)
		out.Steps = append(out.Steps, steps)
	}
	out.Output = capSize() - c0
	if simrt.Instrumented && !free {
		out.SiteBits = simrt.SiteBits()
	}
	out.Unmanaged = simrt.Unmanaged()
	writeJSON(outPath, out)
}

// slim drops the argument lists of the big flood calls, which simulated runs never use
// (newWgen skips them): 10^5 strings less for every collection to walk.
func slim(c *proto.Corpus, e *proto.Expected) {
	for i := range c.Calls {
		if c.Calls[i].Tag == "flood" && i < len(e.Steps) && e.Steps[i] > floodSimSteps {
			c.Calls[i].List = nil
			c.Calls[i].Expr = ""
		}
	}
	runtime.GC()
}

func fold(h, x uint64) uint64 { return (h ^ x) * 0x100000001b3 }

func runSim(c *proto.Corpus, e *proto.Expected, seed uint64, proc, runs int, build string, maxStep int64, free, wantSigs bool, budgetMs int64, clock bool) {
	t0 := time.Now()
	g := newWgen(c, e, maxStep)
	g.clock = clock
	if len(g.fams) == 0 {
		die("no usable calls")
	}
	if !free {
		// collections happen where the run record says (gc events, end of each run); the
		// memory limit is only the safety net for a tree whose calls allocate so much that
		// one run would not fit in memory otherwise
		debug.SetGCPercent(-1)
		debug.SetMemoryLimit(1536 << 20)
	}
	res := proto.ProcResult{Seed: seed, Proc: proc, Build: build, Mode: "sim", PolicyRuns: map[string]int{}, Faults: map[string]int{},
		Probes: map[string]int{}, TasksHist: make([]int, simrt.MaxTasks+1), NumSites: simrt.NumSites, Instrument: simrt.Instrumented}
	if free {
		res.Mode = "free"
	}
	res.SigAll = 0xcbf29ce484222325
	used := map[int]bool{}
	for i := 0; i < runs; i++ {
		if simrt.Background() > 100 {
			break // too many background goroutines of the library alive: continue in a fresh process
		}
		if budgetMs > 0 && i%16 == 0 && time.Since(t0).Milliseconds() > budgetMs {
			break
		}
		progress(strconv.Itoa(i))
		rec := g.run(seed, proc, i)
		if free {
			rec.Policy = proto.PolicyRec{Kind: "free"}
		}
		o := execRun(&rec, free)
		if o.fault != "" {
			// a table of the simulator overflowed in this run: the run does not count and
			// the process ends here (what it did before stands)
			res.Probes["process_ended_at_simulator_bound"]++
			break
		}
		res.Runs++
		res.Steps += o.sim.Steps
		res.Switches += o.sim.Switches
		res.Ops += int64(o.stats.ops)
		res.PolicyRuns[rec.Policy.Kind]++
		res.TasksHist[len(rec.Tasks)]++
		res.SigAll = fold(res.SigAll, o.sim.Signature)
		if wantSigs {
			res.RunSigs = append(res.RunSigs, o.sim.Signature)
		}
		floodRun := false
		for _, t := range rec.Tasks {
			for _, op := range t.Ops {
				used[op.Call] = true
				if c.Calls[op.Call].Tag == "flood" {
					floodRun = true
				}
			}
		}
		if floodRun {
			res.Faults["flood_task"]++
		} else {
			res.Faults["flood_task"] += 0
		}
		// fault kinds, counted only when they actually fired
		res.Faults["preempt"] += int(o.sim.Switches)
		res.Faults["gc"] += int(o.sim.GCs)
		res.Faults["clock_jump"] += int(o.sim.ClockJumps)
		res.Faults["timers_fired"] += int(o.sim.TimersFired)
		res.Faults["time_skipped_to_next_timer"] += int(o.sim.TimeSkips)
		res.Faults["caller_panic"] += o.stats.panics
		res.Faults["scribble_arg"] += o.stats.scribA
		res.Faults["scribble_result"] += o.stats.scribR
		res.Faults["reuse_arg_buffer"] += o.stats.reused
		res.Faults["blocked_on_lock"] += int(o.sim.Blocked)
		if rec.Cold {
			res.Faults["cold"]++
		}
		if rec.Policy.Kind == "herd" && o.sim.Overlap {
			res.Faults["herd"]++
		}
		if rec.Policy.Kind == "stall" && o.sim.Switches > 0 {
			res.Faults["stall"]++
		}
		if o.sim.SameKey {
			res.Faults["same_key"]++
		}
		probe := func(name string, b bool) {
			if b {
				res.Probes[name]++
			} else {
				res.Probes[name] += 0
			}
		}
		probe("overlap", o.sim.Overlap)
		probe("cold_overlap", rec.Cold && o.sim.ColdOver)
		probe("inflight_at_gc", o.sim.InflightGC)
		probe("panic_while_others_inflight", o.sim.PanicOver)
		probe("lock_contention", o.sim.Blocked > 0)
		probe("stalled_task_released_last", o.sim.Unstalled)
		probe("run_ended_with_library_goroutines_waiting", o.sim.Leaked)
		res.Faults["library_goroutines_spawned"] += int(o.sim.Spawned)
		res.Probes["library_goroutines_carried_over_max"] = max(res.Probes["library_goroutines_carried_over_max"], int(o.sim.Background))
		probe("truncated_event_log", o.sim.Truncated)
		nontrivial := (len(rec.Tasks) >= 2 && o.sim.Overlap && o.sim.Switches >= 1) || (rec.Policy.Kind == "seq" && o.stats.ops >= 2)
		if free {
			// the schedule is not under the simulator's control: only the workload is
			// distinguishable
			h := uint64(0xcbf29ce484222325)
			for ti, t := range rec.Tasks {
				for _, op := range t.Ops {
					h = fold(fold(h, uint64(ti)), uint64(op.Call))
				}
			}
			o.sim.Signature = h
			nontrivial = len(rec.Tasks) >= 2
		}
		if nontrivial {
			res.NonTrivial = append(res.NonTrivial, o.sim.Signature)
			if len(res.Samples) < 2 && proc == 0 {
				s := rec
				s.Events = toProtoEvents(o.sim.Events, 40)
				res.Samples = append(res.Samples, s)
			}
		}
		if len(o.viol) > 0 {
			fr := rec
			fr.Events = toProtoEvents(o.sim.Events, -1)
			fr.Scripted = !free
			res.Record = &proto.Record{Property: "C13", Class: o.viol[0].Class, Build: build, Seed: seed, Proc: proc, ReplayMode: "exact",
				Run: fr, Violations: o.viol}
			if o.sim.Truncated {
				res.Record.Note = "event log truncated; replay uses the seeded policy"
				res.Record.Run.Scripted = false
			}
			break
		}
		if !free {
			gcNow()
		}
	}
	res.CallsUsed = len(used)
	for id := range used {
		res.UsedCalls = append(res.UsedCalls, int32(id))
	}
	sort.Slice(res.UsedCalls, func(i, j int) bool { return res.UsedCalls[i] < res.UsedCalls[j] })
	res.SiteBits = simrt.SiteBits()
	res.OutputBytes = capSize()
	res.WallMs = time.Since(t0).Milliseconds()
	writeJSON(outPath, res)
	if res.Record != nil {
		os.Exit(3)
	}
}

func toProtoEvents(ev []simrt.Event, max int) []proto.Event {
	out := make([]proto.Event, 0, len(ev))
	for i, e := range ev {
		if max >= 0 && i >= max {
			break
		}
		out = append(out, proto.Event{Kind: e.Kind, Task: e.Task, Next: e.Next, Op: e.Op, OpStep: e.OpStep, Site: e.Site, Step: e.Step, Arg: e.Arg})
	}
	return out
}

func runReplay(rec *proto.Record, build string, free bool, searchN, searchOff int) {
	t0 := time.Now()
	faultIsFatal = true
	if !free {
		// collections happen where the run record says (gc events, end of each run); the
		// memory limit is only the safety net for a tree whose calls allocate so much that
		// one run would not fit in memory otherwise
		debug.SetGCPercent(-1)
		debug.SetMemoryLimit(1536 << 20)
	}
	res := proto.ProcResult{Seed: rec.Seed, Proc: rec.Proc, Build: build, Mode: "replay", NumSites: simrt.NumSites, Instrument: simrt.Instrumented}
	var viol []proto.Violation
	var last runOutcome
	where := -1
	for i := range rec.Prefix {
		progress(strconv.Itoa(i))
		o := execRun(&rec.Prefix[i], free)
		res.Runs++
		if len(o.viol) > 0 {
			viol = o.viol
			where = i
			last = o
			break
		}
		if !free {
			gcNow()
		}
	}
	if viol == nil && searchN > 0 && !free {
		// schedule search on the recorded workload: seeded policies instead of the script
		est := int64(0)
		for a := 0; a < searchN && viol == nil; a++ {
			run := rec.Run
			run.Scripted = false
			run.Events = nil
			run.First = -1
			run.Policy = searchPolicy(&rec.Run, searchOff+a, est)
			progress(strconv.Itoa(len(rec.Prefix)))
			o := execRun(&run, false)
			res.Runs++
			if o.sim.Steps > est {
				est = o.sim.Steps
			}
			if len(o.viol) > 0 {
				viol = o.viol
				last = o
				where = len(rec.Prefix)
				run.Events = toProtoEvents(o.sim.Events, -1)
				run.Scripted = !o.sim.Truncated
				rec.Run = run
			} else {
				gcNow()
			}
		}
	} else if viol == nil {
		progress(strconv.Itoa(len(rec.Prefix)))
		o := execRun(&rec.Run, free)
		res.Runs++
		viol = o.viol
		last = o
		where = len(rec.Prefix)
	}
	res.Steps = last.sim.Steps
	res.Switches = last.sim.Switches
	res.SigAll = last.sim.Signature
	if len(viol) > 0 {
		out := *rec
		out.Violations = viol
		out.Class = viol[0].Class
		out.Note = fmt.Sprintf("violation in run %d of %d", where, len(rec.Prefix)+1)
		if where >= 0 && where < len(rec.Prefix) {
			// an earlier run of the history shows a violation by itself (the history was
			// cut down and that run now meets another state): it becomes the run of the
			// record, with the schedule just executed, and what followed it is dropped
			run := rec.Prefix[where]
			if !free {
				run.Events = toProtoEvents(last.sim.Events, -1)
				run.Scripted = !last.sim.Truncated
			}
			out.Run = run
			out.Prefix = append([]proto.RunRec{}, rec.Prefix[:where]...)
			out.Note = fmt.Sprintf("violation in run %d of %d (an earlier run of the recorded history: promoted to the run of this record)", where, len(rec.Prefix)+1)
		}
		res.Record = &out
	}
	res.WallMs = time.Since(t0).Milliseconds()
	_ = runtime.NumGoroutine
	writeJSON(outPath, res)
	if res.Record != nil {
		os.Exit(3)
	}
}

// searchPolicy: the a-th seeded schedule tried by replay -search.
func searchPolicy(run *proto.RunRec, a int, est int64) proto.PolicyRec {
	r := &rnd{mix(run.Policy.Seed, uint64(a), 0x5ea)}
	if est <= 0 {
		est = 50000
	}
	nt := len(run.Tasks)
	p := proto.PolicyRec{Seed: r.next(), EstSteps: est}
	switch a % 6 {
	case 5:
		p.Kind, p.Quantum, p.PShared, p.PBound = "quantum", int64(logU(r, 0.5, 3.8)), 0.3*r.f(), 0.5
	case 0:
		p.Kind, p.PBound = "seq", 0.5
	case 1:
		p.Kind, p.PShared, p.PAPI, p.PPlain, p.PBound = "walk", 0.1+0.4*r.f(), 0.05+0.25*r.f(), logU(r, -5, -3), 0.3
	case 2:
		p.Kind, p.Depth = "pct", 1+r.n(3)
	case 3:
		p.Kind, p.HerdAt, p.PShared, p.PAPI, p.PPlain, p.PBound = "herd", int64(r.n(40))-1, 0.5, 0.3, logU(r, -4.5, -2.5), 0.3
	default:
		p.Kind = "stall"
		p.StallTask = r.n(nt)
		for tries := 0; tries < 8 && len(run.Tasks[p.StallTask].Ops) == 0; tries++ {
			p.StallTask = r.n(nt)
		}
		if ops := run.Tasks[p.StallTask].Ops; len(ops) > 0 {
			p.StallOp = int32(ops[r.n(len(ops))].ID)
		}
		p.StallStep = 1 + int64(r.next()%uint64(est/int64(nt)+1))
		p.PShared, p.PAPI, p.PPlain, p.PBound = 0.2, 0.1, logU(r, -5.5, -3.5), 0.3
	}
	return p
}
