package simrt

import (
	"os"
	"reflect"
	"runtime"
	"strconv"
	"sync"
	"unsafe"
)

// ---- goroutines spawned by the library: `go func(...){...}(...)` is rewritten to
//
//	{ zzT := zzsim.TaskNew(); go func(...) { zzsim.TaskEnter(zzT); defer zzsim.TaskExit(zzT); ... }(...) }
//
// so that the new goroutine becomes a simulated task: it parks before its first
// statement and runs only when the scheduler picks it. The real `go` keeps the
// happens-before edge parent -> child for the race detector.

// TaskNew reserves a task slot for a goroutine about to be started (-1 outside a run).
//
//go:norace
func TaskNew() int32 {
	if !active {
		// a goroutine started outside a run (package initialisation): it cannot be made a
		// simulated task; the harness asks for the degraded mode when it sees this
		unmanaged++
		return -1
	}
	i := int32(-1)
	// library goroutines live above the caller slots; finished ones are reused
	for j := int32(MaxCallers); j < ntasks; j++ {
		if tasks[j].state == tDone {
			i = j
			break
		}
	}
	if i < 0 {
		if ntasks >= MaxTasks {
			simFault = "more than MaxTasks goroutines alive in one simulated process"
			return -1
		}
		if ntasks < MaxCallers {
			ntasks = MaxCallers
		}
		i = ntasks
		ntasks++
	}
	p := &tasks[cur]
	tasks[i] = task{state: tRunnable, op: p.op, fam: p.fam, lastOp: p.lastOp, child: true, prio: p.prio}
	res.Spawned++
	progress++
	return i
}

// TaskEnter parks the new goroutine until the scheduler runs it.
//
//go:norace
func TaskEnter(t int32) {
	if t < 0 {
		return
	}
	waitTurn(t)
}

// TaskExit ends a spawned task (deferred; also runs when the goroutine panics).
//
//go:norace
func TaskExit(t int32) {
	if t < 0 || !active {
		return
	}
	taskDone(t)
}

// ---- sync.WaitGroup: Wait is the blocking call. The simulator keeps a shadow counter
// (only while a run is active) and lets Wait yield as blocked until it is zero; the real
// calls are still made, so the detector sees the real Done -> Wait edges.

type wgShadow struct {
	p unsafe.Pointer
	n int
}

var (
	wgs  [tableCap]wgShadow
	nWgs int
)

//go:norace
func wgDelta(p unsafe.Pointer, d int) {
	for i := 0; i < nWgs; i++ {
		if wgs[i].p == p {
			wgs[i].n += d
			if wgs[i].n <= 0 {
				for j := i; j+1 < nWgs; j++ {
					wgs[j] = wgs[j+1]
				}
				nWgs--
			}
			return
		}
	}
	if d > 0 {
		if nWgs == tableCap {
			simFault = "WaitGroup table full"
			return
		}
		wgs[nWgs] = wgShadow{p, d}
		nWgs++
	}
}

//go:norace
func wgCount(p unsafe.Pointer) int {
	for i := 0; i < nWgs; i++ {
		if wgs[i].p == p {
			return wgs[i].n
		}
	}
	return 0
}

//go:norace
func noteProgress() { progress++ }

func WGAdd(wg *sync.WaitGroup, n int) {
	if isActive() {
		wgDelta(unsafe.Pointer(wg), n)
		noteProgress()
	}
	wg.Add(n)
}

func WGDone(wg *sync.WaitGroup) {
	if isActive() {
		wgDelta(unsafe.Pointer(wg), -1)
		noteProgress()
	}
	wg.Done()
}

func WGWait(wg *sync.WaitGroup) {
	if !isActive() {
		wg.Wait()
		return
	}
	for wgCount(unsafe.Pointer(wg)) > 0 {
		blocked()
	}
	wg.Wait()
}

// ---- channels. Buffered operations are tried non-blocking and retried after progress.
// An unbuffered rendezvous needs both parties inside the real operation at once: the
// party that arrives second wakes the parked first party just long enough to perform
// its half (waitTurn runs the registered closure), while it blocks for real in its own
// half; the first party stays parked afterwards. Real channel operations are used
// throughout, so values and happens-before edges are the real ones.

const (
	dirSend int8 = 1
	dirRecv int8 = 2
)

// findWaiter looks for a parked task waiting on channel key in direction dir; it returns
// the task and the index of that wait among the task's registered waits.
//
//go:norace
func findWaiter(key unsafe.Pointer, dir int8) (int32, int) {
	var ct [64]int32
	var ci [64]int
	n := 0
	if key == nil {
		return -1, 0 // operations on a nil channel block forever
	}
	for i := int32(0); i < ntasks && n < len(ct); i++ {
		t := &tasks[i]
		if i == cur || t.state != tBlocked || t.waitFn == nil || t.fire {
			continue
		}
		for k := 0; k < t.nWait; k++ {
			if t.waitKeys[k] == key && t.waitDirs[k] == dir {
				ct[n], ci[n] = i, k
				n++
				break
			}
		}
	}
	if n == 0 {
		return -1, 0
	}
	j := selN(n)
	return ct[j], ci[j]
}

//go:norace
func fireTask(i int32, which int) {
	// the parked task polls `fire` from its own goroutine (possibly on another processor
	// in the determinism self-test): everything it reads must be written before the flag
	tasks[i].fireIdx = which
	tasks[i].state = tRunnable
	progress++
	publishFire(i)
}

//go:norace
//go:noinline
func publishFire(i int32) { tasks[i].fire = true }

// waitOnMany registers the current task as waiting on n channels and yields as blocked.
// It reports whether a counterpart completed one of the operations meanwhile.
//
//go:norace
func waitOnMany(n int, keys *[maxSelCases]unsafe.Pointer, dirs *[maxSelCases]int8, f func(which int)) bool {
	t := &tasks[cur]
	for i := 0; i < n; i++ {
		t.waitKeys[i], t.waitDirs[i] = keys[i], dirs[i]
	}
	t.nWait, t.waitFn, t.fired = n, f, false
	blocked()
	t = &tasks[cur]
	done := t.fired
	t.fired = false
	t.nWait, t.waitFn = 0, nil
	return done
}

//go:norace
func waitOn(key unsafe.Pointer, dir int8, f func()) bool {
	var keys [maxSelCases]unsafe.Pointer
	var dirs [maxSelCases]int8
	keys[0], dirs[0] = key, dir
	return waitOnMany(1, &keys, &dirs, func(int) { f() })
}

func chanKey[T any](ch chan T) unsafe.Pointer { return *(*unsafe.Pointer)(unsafe.Pointer(&ch)) }

// Send replaces `ch <- v`.
func Send[T any](ch chan<- T, v T) {
	if !isActive() {
		ch <- v
		return
	}
	key := *(*unsafe.Pointer)(unsafe.Pointer(&ch))
	for {
		select {
		case ch <- v:
			noteProgress()
			return
		default:
		}
		if r, k := findWaiter(key, dirRecv); r >= 0 {
			fireTask(r, k)
			ch <- v // completes against r's receive, performed from r's parked loop
			return
		}
		if waitOn(key, dirSend, func() { ch <- v }) {
			return
		}
	}
}

// Recv2 replaces `v, ok := <-ch` (and range over a channel).
// RecvFirst starts a rewritten `for v := range ch`: first element, whether there was one,
// and the channel (evaluated once) for the following Recv2 calls.
func RecvFirst[T any](ch <-chan T) (v T, ok bool, c <-chan T) {
	v, ok = Recv2(ch)
	return v, ok, ch
}

func Recv2[T any](ch <-chan T) (v T, ok bool) {
	if !isActive() {
		v, ok = <-ch
		return
	}
	key := *(*unsafe.Pointer)(unsafe.Pointer(&ch))
	for {
		select {
		case v, ok = <-ch:
			noteProgress()
			return
		default:
		}
		if s, k := findWaiter(key, dirSend); s >= 0 {
			fireTask(s, k)
			v, ok = <-ch
			return
		}
		if waitOn(key, dirRecv, func() { v, ok = <-ch }) {
			return
		}
	}
}

// Recv replaces `<-ch`.
func Recv[T any](ch <-chan T) T {
	v, _ := Recv2(ch)
	return v
}

// ---- select. `select { case ... }` is rewritten to
//
//	switch zzi, zzv, zzok := zzsim.Select(hasDefault, zzsim.RecvCase(c1), zzsim.SendCase(c2, x), ...); zzi { case 0: ...; case 1: ... ; default: ... }
//
// Among the cases that can proceed one is chosen uniformly (as Go does), from the
// simulator's own stream, so the choice replays.

type SelCase struct {
	dir int8
	ch  reflect.Value
	val reflect.Value
	key unsafe.Pointer
}

func RecvCase[T any](ch <-chan T) SelCase {
	return SelCase{dir: dirRecv, ch: reflect.ValueOf(ch), key: *(*unsafe.Pointer)(unsafe.Pointer(&ch))}
}

// SendTo(ch).V(v) replaces `ch <- v`: the element type is fixed by the channel alone, so
// the value is passed under ordinary assignability (`errc <- &MyErr{}` on a chan error,
// an int sent on a chan any), and channel and value are still evaluated in that order.
type Sender[T any] struct{ ch chan<- T }

func SendTo[T any](ch chan<- T) Sender[T] { return Sender[T]{ch} }

func (s Sender[T]) V(v T) { Send(s.ch, v) }

// SendCaseTo(ch).V(v): the same for a send case of a select.
type CaseSender[T any] struct{ ch chan<- T }

func SendCaseTo[T any](ch chan<- T) CaseSender[T] { return CaseSender[T]{ch} }

func (s CaseSender[T]) V(v T) SelCase { return SendCase(s.ch, v) }

func SendCase[T any](ch chan<- T, v T) SelCase {
	return SelCase{dir: dirSend, ch: reflect.ValueOf(ch), val: reflect.ValueOf(&v).Elem(), key: *(*unsafe.Pointer)(unsafe.Pointer(&ch))}
}

// As converts the value received by Select back to the channel's element type.
func As[T any](ch <-chan T, v any) T {
	if v == nil {
		var z T
		return z
	}
	return v.(T)
}

func ifaceOf(v reflect.Value) any {
	if !v.IsValid() {
		return nil
	}
	return v.Interface()
}

//go:norace
func selPerm(n int, p *[maxSelCases]int) {
	for i := 0; i < n; i++ {
		p[i] = i
	}
	for i := n - 1; i > 0; i-- {
		j := selN(i + 1)
		p[i], p[j] = p[j], p[i]
	}
}

// Select returns the index of the case that proceeded (-1: default), the received value
// and the receive's ok flag.
func Select(hasDefault bool, cases ...SelCase) (int, any, bool) {
	if !isActive() || len(cases) > maxSelCases {
		sc := make([]reflect.SelectCase, 0, len(cases)+1)
		for _, c := range cases {
			if c.dir == dirRecv {
				sc = append(sc, reflect.SelectCase{Dir: reflect.SelectRecv, Chan: c.ch})
			} else {
				sc = append(sc, reflect.SelectCase{Dir: reflect.SelectSend, Chan: c.ch, Send: c.val})
			}
		}
		if hasDefault {
			sc = append(sc, reflect.SelectCase{Dir: reflect.SelectDefault})
		}
		i, v, ok := reflect.Select(sc)
		if hasDefault && i == len(cases) {
			return -1, nil, false
		}
		return i, ifaceOf(v), ok
	}
	n := len(cases)
	for {
		var perm [maxSelCases]int
		selPerm(n, &perm)
		for _, i := range perm[:n] {
			c := &cases[i]
			if c.key == nil {
				continue // nil channel: never ready
			}
			if c.dir == dirRecv {
				if v, ok := c.ch.TryRecv(); ok || v.IsValid() {
					noteProgress()
					return i, ifaceOf(v), ok
				}
				if s, k := findWaiter(c.key, dirSend); s >= 0 {
					fireTask(s, k)
					v, ok := c.ch.Recv()
					return i, ifaceOf(v), ok
				}
			} else {
				if c.ch.TrySend(c.val) {
					noteProgress()
					return i, nil, false
				}
				if r, k := findWaiter(c.key, dirRecv); r >= 0 {
					fireTask(r, k)
					c.ch.Send(c.val)
					return i, nil, false
				}
			}
		}
		if hasDefault {
			return -1, nil, false
		}
		// nothing can proceed: wait on all of them
		var keys [maxSelCases]unsafe.Pointer
		var dirs [maxSelCases]int8
		for i := range cases {
			keys[i], dirs[i] = cases[i].key, cases[i].dir
		}
		chosen, rv, rok := -1, any(nil), false
		if waitOnMany(n, &keys, &dirs, func(which int) {
			c := &cases[which]
			chosen = which
			if c.dir == dirRecv {
				v, ok := c.ch.Recv()
				rv, rok = ifaceOf(v), ok
			} else {
				c.ch.Send(c.val)
			}
		}) {
			return chosen, rv, rok
		}
	}
}

// GOMAXPROCS replaces runtime.GOMAXPROCS: a query (n < 1) answers the run's simulated
// processor count; a change request is passed to the runtime.
func GOMAXPROCS(n int) int {
	if n < 1 && isActive() {
		return simProcsNow()
	}
	if n < 1 && initProcs > 0 {
		return initProcs
	}
	return runtime.GOMAXPROCS(n)
}

// NumCPU replaces runtime.NumCPU.
func NumCPU() int {
	if isActive() {
		return simProcsNow()
	}
	if initProcs > 0 {
		return initProcs
	}
	return runtime.NumCPU()
}

// initProcs is what a query OUTSIDE of a run answers: package-level initialisers and init
// functions of the library (`var workers = runtime.GOMAXPROCS(0)`) run before any run
// exists, in a process that really has one processor. The driver gives every simulator
// process its own value (VERIF_INIT_PROCS), so that a worker count fixed at start-up is
// exercised at 1, 2, 4, 8 and 16 too. This package is initialised before the packages of
// the library, which import it.
var initProcs = func() int {
	n, _ := strconv.Atoi(os.Getenv("VERIF_INIT_PROCS"))
	return n
}()

//go:norace
func simProcsNow() int { return simProcs }

// Background reports how many library goroutines are alive in this process (they persist
// from run to run).
//
//go:norace
func Background() int {
	n := 0
	for i := int32(MaxCallers); i < ntasks; i++ {
		if tasks[i].state != tDone {
			n++
		}
	}
	return n
}

// ---- sync.Cond. Wait / Signal / Broadcast are rewritten; the simulator keeps the list of
// waiters (the real Cond is not used inside a run). As in the real implementation the only
// happens-before edges are those of the Locker.

type condWaiter struct {
	c        unsafe.Pointer
	task     int32
	signaled bool
}

var (
	condWaiters [tableCap]condWaiter
	nCondW      int
)

//go:norace
func condRegister(c unsafe.Pointer) {
	if nCondW == tableCap {
		simFault = "cond waiter table full"
		return
	}
	condWaiters[nCondW] = condWaiter{c: c, task: cur}
	nCondW++
}

//go:norace
func condSignaled(c unsafe.Pointer) bool {
	for i := 0; i < nCondW; i++ {
		if condWaiters[i].c == c && condWaiters[i].task == cur {
			if condWaiters[i].signaled {
				for j := i; j+1 < nCondW; j++ {
					condWaiters[j] = condWaiters[j+1]
				}
				nCondW--
				return true
			}
			return false
		}
	}
	return true // not registered (table fault): do not wait for ever
}

//go:norace
func condWake(c unsafe.Pointer, all bool) {
	var idx [tableCap]int
	n := 0
	for i := 0; i < nCondW; i++ {
		if condWaiters[i].c == c && !condWaiters[i].signaled {
			idx[n] = i
			n++
		}
	}
	if n == 0 {
		return
	}
	progress++
	if all {
		for k := 0; k < n; k++ {
			condWaiters[idx[k]].signaled = true
		}
		return
	}
	// Signal wakes the waiter that has waited longest (the real notifyList is FIFO)
	condWaiters[idx[0]].signaled = true
}

func lockLocker(l sync.Locker) {
	switch m := l.(type) {
	case *sync.Mutex:
		Lock(m)
	case *sync.RWMutex:
		Lock(m)
	default:
		setFault("sync.Cond with a Locker that is neither *sync.Mutex nor *sync.RWMutex")
		l.Lock()
	}
}

//go:norace
func setFault(s string) { simFault = s }

func CondWait(c *sync.Cond) {
	if !isActive() {
		c.Wait()
		return
	}
	p := unsafe.Pointer(c)
	condRegister(p)
	c.L.Unlock()
	noteProgress() // the lock was released without a yield in between: waiters on it may retry
	for !condSignaled(p) {
		blocked()
	}
	lockLocker(c.L)
}

func CondSignal(c *sync.Cond) {
	if !isActive() {
		c.Signal()
		return
	}
	condWake(unsafe.Pointer(c), false)
}

func CondBroadcast(c *sync.Cond) {
	if !isActive() {
		c.Broadcast()
		return
	}
	condWake(unsafe.Pointer(c), true)
}

// Gosched replaces runtime.Gosched: a voluntary yield. Under the seeded policies another
// eligible task runs next; under script replay the recorded switch (if any) was taken at
// the yield in front of this statement.
func Gosched() {
	if !isActive() {
		runtime.Gosched()
		return
	}
	voluntaryYield()
}

//go:norace
func voluntaryYield() {
	progress++
	if pol.Kind == PolScript {
		return
	}
	demote()
	switchAway(0, EvSwitch)
}

var unmanaged int

// Unmanaged reports how many goroutines the library started while no run was active
// (e.g. from an init function). They run outside the simulator's control.
//
//go:norace
func Unmanaged() int { return unmanaged }
