package simrt

import (
	"sync"
	"unsafe"
)

// ---- goroutines spawned by the library: `go func(...){...}(...)` is rewritten to
//
//	{ zzT := zzsim.TaskNew(); go func(...) { zzsim.TaskEnter(zzT); defer zzsim.TaskExit(zzT); ... }(...) }
//
// so that the new goroutine becomes a simulated task: it parks before its first
// statement and runs only when the scheduler picks it. The real `go` keeps the
// happens-before edge parent -> child for the race detector.

// TaskNew reserves a task slot for a goroutine about to be started (-1 outside a run).
//
//go:norace
func TaskNew() int32 {
	if !active {
		return -1
	}
	i := int32(-1)
	if ntasks < MaxTasks {
		i = ntasks
		ntasks++
	} else {
		// reuse the slot of a library goroutine that has finished
		for j := int32(0); j < ntasks; j++ {
			if tasks[j].child && tasks[j].state == tDone {
				i = j
				break
			}
		}
		if i < 0 {
			simFault = "more than MaxTasks goroutines alive in one simulated run"
			return -1
		}
	}
	p := &tasks[cur]
	tasks[i] = task{state: tRunnable, op: p.op, fam: p.fam, lastOp: p.lastOp, child: true, prio: p.prio}
	res.Spawned++
	progress++
	return i
}

// TaskEnter parks the new goroutine until the scheduler runs it.
//
//go:norace
func TaskEnter(t int32) {
	if t < 0 {
		return
	}
	waitTurn(t)
}

// TaskExit ends a spawned task (deferred; also runs when the goroutine panics).
//
//go:norace
func TaskExit(t int32) {
	if t < 0 || !active {
		return
	}
	taskDone(t)
}

// ---- sync.WaitGroup: Wait is the blocking call. The simulator keeps a shadow counter
// (only while a run is active) and lets Wait yield as blocked until it is zero; the real
// calls are still made, so the detector sees the real Done -> Wait edges.

type wgShadow struct {
	p unsafe.Pointer
	n int
}

var (
	wgs  [tableCap]wgShadow
	nWgs int
)

//go:norace
func wgDelta(p unsafe.Pointer, d int) {
	for i := 0; i < nWgs; i++ {
		if wgs[i].p == p {
			wgs[i].n += d
			if wgs[i].n <= 0 {
				for j := i; j+1 < nWgs; j++ {
					wgs[j] = wgs[j+1]
				}
				nWgs--
			}
			return
		}
	}
	if d > 0 {
		if nWgs == tableCap {
			simFault = "WaitGroup table full"
			return
		}
		wgs[nWgs] = wgShadow{p, d}
		nWgs++
	}
}

//go:norace
func wgCount(p unsafe.Pointer) int {
	for i := 0; i < nWgs; i++ {
		if wgs[i].p == p {
			return wgs[i].n
		}
	}
	return 0
}

//go:norace
func noteProgress() { progress++ }

func WGAdd(wg *sync.WaitGroup, n int) {
	if isActive() {
		wgDelta(unsafe.Pointer(wg), n)
		noteProgress()
	}
	wg.Add(n)
}

func WGDone(wg *sync.WaitGroup) {
	if isActive() {
		wgDelta(unsafe.Pointer(wg), -1)
		noteProgress()
	}
	wg.Done()
}

func WGWait(wg *sync.WaitGroup) {
	if !isActive() {
		wg.Wait()
		return
	}
	for wgCount(unsafe.Pointer(wg)) > 0 {
		blocked()
	}
	wg.Wait()
}

// ---- channels. Buffered operations are tried non-blocking and retried after progress.
// An unbuffered rendezvous needs both parties inside the real operation at once: the
// party that arrives second wakes the parked first party just long enough to perform
// its half (waitTurn runs the registered closure), while it blocks for real in its own
// half; the first party stays parked afterwards. Real channel operations are used
// throughout, so values and happens-before edges are the real ones.

const (
	dirSend int8 = 1
	dirRecv int8 = 2
)

//go:norace
func findWaiter(key unsafe.Pointer, dir int8) int32 {
	var c [MaxTasks]int32
	n := 0
	if key == nil {
		return -1 // operations on a nil channel block forever
	}
	for i := int32(0); i < ntasks; i++ {
		if i != cur && tasks[i].state == tBlocked && tasks[i].waitKey == key && tasks[i].waitDir == dir && tasks[i].waitFn != nil && !tasks[i].fire {
			c[n] = i
			n++
		}
	}
	if n == 0 {
		return -1
	}
	if pol.Kind == PolScript {
		return c[0]
	}
	return c[rndN(n)]
}

//go:norace
func fireTask(i int32) {
	tasks[i].fire = true
	tasks[i].state = tRunnable
	progress++
}

// waitOn registers the current task as waiting on a channel and yields as blocked.
// It reports whether a counterpart completed the operation meanwhile.
//
//go:norace
func waitOn(key unsafe.Pointer, dir int8, f func()) bool {
	t := &tasks[cur]
	t.waitKey, t.waitDir, t.waitFn, t.fired = key, dir, f, false
	blocked()
	t = &tasks[cur]
	done := t.fired
	t.fired = false
	t.waitKey, t.waitFn = nil, nil
	return done
}

func chanKey[T any](ch chan T) unsafe.Pointer { return *(*unsafe.Pointer)(unsafe.Pointer(&ch)) }

// Send replaces `ch <- v`.
func Send[T any](ch chan<- T, v T) {
	if !isActive() {
		ch <- v
		return
	}
	key := *(*unsafe.Pointer)(unsafe.Pointer(&ch))
	for {
		select {
		case ch <- v:
			noteProgress()
			return
		default:
		}
		if r := findWaiter(key, dirRecv); r >= 0 {
			fireTask(r)
			ch <- v // completes against r's receive, performed from r's parked loop
			return
		}
		if waitOn(key, dirSend, func() { ch <- v }) {
			return
		}
	}
}

// Recv2 replaces `v, ok := <-ch` (and range over a channel).
func Recv2[T any](ch <-chan T) (v T, ok bool) {
	if !isActive() {
		v, ok = <-ch
		return
	}
	key := *(*unsafe.Pointer)(unsafe.Pointer(&ch))
	for {
		select {
		case v, ok = <-ch:
			noteProgress()
			return
		default:
		}
		if s := findWaiter(key, dirSend); s >= 0 {
			fireTask(s)
			v, ok = <-ch
			return
		}
		if waitOn(key, dirRecv, func() { v, ok = <-ch }) {
			return
		}
	}
}

// Recv replaces `<-ch`.
func Recv[T any](ch <-chan T) T {
	v, _ := Recv2(ch)
	return v
}
