//go:build !race

package simrt

import "unsafe"

func raceRelease(p unsafe.Pointer) {}
func raceAcquire(p unsafe.Pointer) {}
