package simrt

import "time"

// The simulated clock: time.Now / time.Since / time.Until in the instrumented library are
// rewritten to these. Inside a run the clock is a pure function of the simulation:
// a fixed epoch + 1 microsecond per executed yield + 1 millisecond per finished call + the
// jumps injected by the fault plan
// (forwards and backwards). It keeps advancing from run to run within a process.

var (
	clockBase   = time.Date(2030, 1, 1, 0, 0, 0, 0, time.UTC).UnixNano()
	clockOffset int64
)

//go:norace
func simNow() (int64, bool) {
	if !active {
		return 0, false
	}
	return clockBase + steps*1000 + clockOffset, true
}

func Now() time.Time {
	if ns, ok := simNow(); ok {
		return time.Unix(0, ns)
	}
	return time.Now()
}

func Since(t time.Time) time.Duration { return Now().Sub(t) }

func Until(t time.Time) time.Duration { return t.Sub(Now()) }
