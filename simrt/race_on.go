//go:build race

package simrt

import (
	"runtime"
	"unsafe"
)

// happens-before edges the real runtime provides and the models must not lose (a timer
// function runs after everything that happened before the timer was armed)
func raceRelease(p unsafe.Pointer) { runtime.RaceRelease(p) }
func raceAcquire(p unsafe.Pointer) { runtime.RaceAcquire(p) }
