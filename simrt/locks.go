package simrt

import (
	"reflect"
	"sync"
	"unsafe"
)

// Blocking primitives of package sync as rewritten by the instrumenter. Outside a run
// they are the real calls. Inside a run a task must never block for real (the task
// holding the lock may be parked), so acquisition is a TryLock loop that reports
// "blocked" to the scheduler between attempts. A successful TryLock carries the normal
// acquire edge for the race detector, so the library's own synchronisation is seen
// exactly as it is.

type tryLocker interface {
	Lock()
	TryLock() bool
}

type tryRLocker interface {
	RLock()
	TryRLock() bool
}

// Lock replaces x.Lock() for sync.Mutex / sync.RWMutex (also when embedded).
//
// RWMutex has writer preference: once a goroutine has called Lock and waits for the
// active readers to drain, new RLock calls block until that writer has acquired and
// released the lock (sync documentation; this is what makes recursive read-locking a
// deadlock). A polling TryLock does not announce itself to the real RWMutex, so the
// simulator keeps the set of pending writers and RLock consults it.
// LockAny replaces x.Lock() where x has an INTERFACE type (sync.Locker - `c.L.Lock()` is the
// documented sync.Cond idiom - or an interface of the library): the mutexes of package
// sync get the model, any other implementation is library code and is instrumented itself.
func LockAny(l interface{ Lock() }) {
	switch m := l.(type) {
	case *sync.Mutex:
		Lock(m)
	case *sync.RWMutex:
		Lock(m)
	default:
		if rw := asRLocker(l); rw != nil {
			RLock(rw)
			return
		}
		l.Lock()
	}
}

// RLockAny: the same for x.RLock() on an interface value.
func RLockAny(l interface{ RLock() }) {
	if rw, ok := l.(*sync.RWMutex); ok {
		RLock(rw)
		return
	}
	l.RLock()
}

// asRLocker recognises the value returned by (*sync.RWMutex).RLocker(): its unexported
// type is defined as `type rlocker RWMutex`, Lock means RLock.
func asRLocker(l any) *sync.RWMutex {
	v := reflect.ValueOf(l)
	if v.Kind() == reflect.Pointer && v.Type().String() == "*sync.rlocker" {
		return (*sync.RWMutex)(v.UnsafePointer())
	}
	return nil
}

func Lock(m tryLocker) {
	if !isActive() {
		m.Lock()
		return
	}
	if m.TryLock() {
		return
	}
	rw, isRW := m.(*sync.RWMutex)
	if isRW {
		writerPending(unsafe.Pointer(rw), +1)
	}
	for {
		blocked()
		if m.TryLock() {
			break
		}
	}
	if isRW {
		writerPending(unsafe.Pointer(rw), -1)
	}
}

// RLock replaces x.RLock() for sync.RWMutex.
func RLock(m tryRLocker) {
	if !isActive() {
		m.RLock()
		return
	}
	rw, isRW := m.(*sync.RWMutex)
	for {
		if !(isRW && hasPendingWriter(unsafe.Pointer(rw))) && m.TryRLock() {
			return
		}
		blocked()
	}
}

type pendingW struct {
	p unsafe.Pointer
	n int
}

// NOTE: simulator tables are fixed arrays manipulated with plain loops. copy/append must
// not be used in //go:norace code on memory shared between tasks: runtime.slicecopy and
// growslice carry their own race-detector hooks regardless of the caller's pragma.
var (
	pendingWriters [tableCap]pendingW
	nPendingW      int
)

const tableCap = 1024

//go:norace
func writerPending(p unsafe.Pointer, d int) {
	for i := 0; i < nPendingW; i++ {
		if pendingWriters[i].p == p {
			pendingWriters[i].n += d
			if pendingWriters[i].n <= 0 {
				for j := i; j+1 < nPendingW; j++ {
					pendingWriters[j] = pendingWriters[j+1]
				}
				nPendingW--
			}
			return
		}
	}
	if d > 0 {
		if nPendingW == tableCap {
			simFault = "pending-writer table full"
			return
		}
		pendingWriters[nPendingW] = pendingW{p, d}
		nPendingW++
	}
}

//go:norace
func hasPendingWriter(p unsafe.Pointer) bool {
	for i := 0; i < nPendingW; i++ {
		if pendingWriters[i].p == p {
			return true
		}
	}
	return false
}

//go:norace
func isActive() bool { return active }

type onceState struct {
	p     unsafe.Pointer
	owner int32
}

var (
	onceBusy  [tableCap]onceState
	nOnceBusy int
)

//go:norace
func onceIsBusy(p unsafe.Pointer) bool {
	for i := 0; i < nOnceBusy; i++ {
		if onceBusy[i].p == p {
			return true
		}
	}
	return false
}

//go:norace
func onceEnter(p unsafe.Pointer) {
	if nOnceBusy == tableCap {
		simFault = "once table full"
		return
	}
	onceBusy[nOnceBusy] = onceState{p, cur}
	nOnceBusy++
}

//go:norace
func onceLeave(p unsafe.Pointer) {
	for i := 0; i < nOnceBusy; i++ {
		if onceBusy[i].p == p {
			for j := i; j+1 < nOnceBusy; j++ {
				onceBusy[j] = onceBusy[j+1]
			}
			nOnceBusy--
			return
		}
	}
}

//go:norace
func onceReset() { nOnceBusy, nPendingW, nWgs = 0, 0, 0 }

// OnceDo replaces o.Do(f). The real Once blocks a second caller while the first is
// still inside f; here the second caller yields as blocked instead.
func OnceDo(o *sync.Once, f func()) {
	if !isActive() {
		o.Do(f)
		return
	}
	p := unsafe.Pointer(o)
	for onceIsBusy(p) {
		blocked()
	}
	o.Do(func() {
		onceEnter(p)
		defer onceLeave(p)
		f()
	})
}

// OnceFunc / OnceValue / OnceValues replace the sync helpers of the same name (their
// internal Once would otherwise block for real).
func OnceFunc(f func()) func() {
	var (
		once  sync.Once
		valid bool
		p     any
	)
	g := func() {
		defer func() {
			p = recover()
			if !valid {
				panic(p)
			}
		}()
		f()
		f = nil
		valid = true
	}
	return func() {
		OnceDo(&once, g)
		if !valid {
			panic(p)
		}
	}
}

func OnceValue[T any](f func() T) func() T {
	var (
		once   sync.Once
		valid  bool
		p      any
		result T
	)
	g := func() {
		defer func() {
			p = recover()
			if !valid {
				panic(p)
			}
		}()
		result = f()
		f = nil
		valid = true
	}
	return func() T {
		OnceDo(&once, g)
		if !valid {
			panic(p)
		}
		return result
	}
}

func OnceValues[T1, T2 any](f func() (T1, T2)) func() (T1, T2) {
	var (
		once  sync.Once
		valid bool
		p     any
		r1    T1
		r2    T2
	)
	g := func() {
		defer func() {
			p = recover()
			if !valid {
				panic(p)
			}
		}()
		r1, r2 = f()
		f = nil
		valid = true
	}
	return func() (T1, T2) {
		OnceDo(&once, g)
		if !valid {
			panic(p)
		}
		return r1, r2
	}
}
