package simrt

import (
	"sync"
	"unsafe"
)

// Blocking primitives of package sync as rewritten by the instrumenter. Outside a run
// they are the real calls. Inside a run a task must never block for real (the task
// holding the lock may be parked), so acquisition is a TryLock loop that reports
// "blocked" to the scheduler between attempts. A successful TryLock carries the normal
// acquire edge for the race detector, so the library's own synchronisation is seen
// exactly as it is.

type tryLocker interface {
	Lock()
	TryLock() bool
}

type tryRLocker interface {
	RLock()
	TryRLock() bool
}

// Lock replaces x.Lock() for sync.Mutex / sync.RWMutex (also when embedded).
func Lock(m tryLocker) {
	if !isActive() {
		m.Lock()
		return
	}
	for !m.TryLock() {
		blocked()
	}
}

// RLock replaces x.RLock() for sync.RWMutex.
func RLock(m tryRLocker) {
	if !isActive() {
		m.RLock()
		return
	}
	for !m.TryRLock() {
		blocked()
	}
}

//go:norace
func isActive() bool { return active }

type onceState struct {
	p     unsafe.Pointer
	owner int32
}

var onceBusy []onceState

//go:norace
func onceIsBusy(p unsafe.Pointer) bool {
	for i := range onceBusy {
		if onceBusy[i].p == p {
			return true
		}
	}
	return false
}

//go:norace
func onceEnter(p unsafe.Pointer) {
	onceBusy = append(onceBusy, onceState{p, cur})
}

//go:norace
func onceLeave(p unsafe.Pointer) {
	for i := range onceBusy {
		if onceBusy[i].p == p {
			onceBusy = append(onceBusy[:i], onceBusy[i+1:]...)
			return
		}
	}
}

//go:norace
func onceReset() { onceBusy = onceBusy[:0] }

// OnceDo replaces o.Do(f). The real Once blocks a second caller while the first is
// still inside f; here the second caller yields as blocked instead.
func OnceDo(o *sync.Once, f func()) {
	if !isActive() {
		o.Do(f)
		return
	}
	p := unsafe.Pointer(o)
	for onceIsBusy(p) {
		blocked()
	}
	o.Do(func() {
		onceEnter(p)
		defer onceLeave(p)
		f()
	})
}

// OnceFunc / OnceValue / OnceValues replace the sync helpers of the same name (their
// internal Once would otherwise block for real).
func OnceFunc(f func()) func() {
	var (
		once  sync.Once
		valid bool
		p     any
	)
	g := func() {
		defer func() {
			p = recover()
			if !valid {
				panic(p)
			}
		}()
		f()
		f = nil
		valid = true
	}
	return func() {
		OnceDo(&once, g)
		if !valid {
			panic(p)
		}
	}
}

func OnceValue[T any](f func() T) func() T {
	var (
		once   sync.Once
		valid  bool
		p      any
		result T
	)
	g := func() {
		defer func() {
			p = recover()
			if !valid {
				panic(p)
			}
		}()
		result = f()
		f = nil
		valid = true
	}
	return func() T {
		OnceDo(&once, g)
		if !valid {
			panic(p)
		}
		return result
	}
}

func OnceValues[T1, T2 any](f func() (T1, T2)) func() (T1, T2) {
	var (
		once  sync.Once
		valid bool
		p     any
		r1    T1
		r2    T2
	)
	g := func() {
		defer func() {
			p = recover()
			if !valid {
				panic(p)
			}
		}()
		r1, r2 = f()
		f = nil
		valid = true
	}
	return func() (T1, T2) {
		OnceDo(&once, g)
		if !valid {
			panic(p)
		}
		return r1, r2
	}
}
