package simrt

import (
	"time"
	"unsafe"
)

// Simulated timers. time.Sleep / After / Tick / NewTimer / NewTicker / AfterFunc and the
// Stop / Reset methods of *time.Timer and *time.Ticker are rewritten to these. Inside a
// run a timer fires when the simulated clock (clock.go) passes its deadline - checked at
// every yield, so a clock_jump fault fires everything it jumps over - and when every task
// is blocked the clock jumps to the earliest deadline (discrete-event time: a minute-long
// tick costs nothing). The library keeps its own types: NewTimer / NewTicker return real
// *time.Timer / *time.Ticker values (stopped) whose exported C field is replaced by the
// simulated channel.

type simTimer struct {
	deadline int64
	period   int64
	ch       chan time.Time
	fn       func()
	key      unsafe.Pointer
	hb       unsafe.Pointer // AfterFunc: released by the arming task, acquired by the function's goroutine
}

var (
	timers     [tableCap]simTimer
	nTimers    int
	nextTimer  int64 = 1 << 62 // earliest deadline (ns), for the fast path in yslow
	timerFired int64
)

const longTime = 1000 * time.Hour

const maxTimeSkips = 20000

//go:norace
func addTimer(d time.Duration, period time.Duration, ch chan time.Time, fn func(), key unsafe.Pointer, hb unsafe.Pointer) {
	now, _ := simNow()
	if nTimers == tableCap {
		simFault = "timer table full"
		return
	}
	if d < 0 {
		d = 0
	}
	timers[nTimers] = simTimer{deadline: now + int64(d), period: int64(period), ch: ch, fn: fn, key: key, hb: hb}
	nTimers++
	recomputeNextTimer()
	progress++
}

//go:norace
func recomputeNextTimer() {
	nextTimer = 1 << 62
	for i := 0; i < nTimers; i++ {
		if timers[i].deadline < nextTimer {
			nextTimer = timers[i].deadline
		}
	}
}

//go:norace
func removeTimerAt(i int) {
	for j := i; j+1 < nTimers; j++ {
		timers[j] = timers[j+1]
	}
	nTimers--
	timers[nTimers] = simTimer{}
}

//go:norace
func stopTimerKey(key unsafe.Pointer) bool {
	for i := 0; i < nTimers; i++ {
		if timers[i].key == key {
			removeTimerAt(i)
			recomputeNextTimer()
			return true
		}
	}
	return false
}

//go:norace
func popDue(now int64) (simTimer, bool) {
	best := -1
	for i := 0; i < nTimers; i++ {
		if timers[i].deadline <= now && (best < 0 || timers[i].deadline < timers[best].deadline) {
			best = i
		}
	}
	if best < 0 {
		return simTimer{}, false
	}
	t := timers[best]
	if t.period > 0 {
		// a ticker drops ticks for slow receivers: next tick after now
		n := (now-t.deadline)/t.period + 1
		timers[best].deadline = t.deadline + n*t.period
	} else {
		removeTimerAt(best)
	}
	recomputeNextTimer()
	timerFired++
	progress++
	return t, true
}

// fireDue delivers every timer whose deadline has passed (called from yields and when
// the scheduler has nothing else to run). Not norace: it performs real channel sends and
// starts AfterFunc goroutines.
func fireDue() {
	for {
		now, ok := simNow()
		if !ok {
			return
		}
		t, due := popDue(now)
		if !due {
			return
		}
		switch {
		case t.ch != nil:
			select {
			case t.ch <- time.Unix(0, now):
			default:
			}
		case t.fn != nil:
			f := t.fn
			hb := t.hb
			tk := TaskNew()
			go func() {
				TaskEnter(tk)
				defer TaskExit(tk)
				if hb != nil {
					// the real runtime orders the function after the arming of its timer
					raceAcquire(hb)
				}
				f()
			}()
		}
	}
}

// advanceToNextTimer: every task is blocked; let simulated time pass until the earliest
// timer is due. Reports false if there is no timer.
//
//go:norace
func advanceToNextTimer() bool {
	if nTimers == 0 || res.TimeSkips >= maxTimeSkips {
		// (a caller that is still blocked after this many timer periods in which nothing
		// but timer-driven work happened is reported as blocked for ever)
		return false
	}
	now, _ := simNow()
	if nextTimer > now {
		clockOffset += nextTimer - now
		res.TimeSkips++
	}
	return true
}

// ---- rewritten API ----

func Sleep(d time.Duration) {
	if !isActive() {
		time.Sleep(d)
		return
	}
	ch := make(chan time.Time, 1)
	addTimer(d, 0, ch, nil, nil, nil)
	Recv[time.Time](ch)
}

func After(d time.Duration) <-chan time.Time {
	if !isActive() {
		return time.After(d)
	}
	ch := make(chan time.Time, 1)
	addTimer(d, 0, ch, nil, nil, nil)
	return ch
}

func Tick(d time.Duration) <-chan time.Time {
	if !isActive() {
		return time.Tick(d)
	}
	ch := make(chan time.Time, 1)
	addTimer(d, d, ch, nil, nil, nil)
	return ch
}

func NewTimer(d time.Duration) *time.Timer {
	if !isActive() {
		return time.NewTimer(d)
	}
	t := time.NewTimer(longTime)
	t.Stop()
	ch := make(chan time.Time, 1)
	t.C = ch
	addTimer(d, 0, ch, nil, unsafe.Pointer(t), nil)
	return t
}

func NewTicker(d time.Duration) *time.Ticker {
	if !isActive() {
		return time.NewTicker(d)
	}
	if d <= 0 {
		panic("non-positive interval for NewTicker")
	}
	t := time.NewTicker(longTime)
	t.Stop()
	ch := make(chan time.Time, 1)
	t.C = ch
	addTimer(d, d, ch, nil, unsafe.Pointer(t), nil)
	return t
}

func AfterFunc(d time.Duration, f func()) *time.Timer {
	if !isActive() {
		return time.AfterFunc(d, f)
	}
	t := time.AfterFunc(longTime, func() {})
	t.Stop()
	addTimer(d, 0, nil, f, unsafe.Pointer(t), armEdge())
	return t
}

// armEdge: a fresh synchronisation token released by the arming goroutine.
func armEdge() unsafe.Pointer {
	p := unsafe.Pointer(new(int64))
	raceRelease(p)
	return p
}

// simulated timers are known by the address of the value handed to the library
//
//go:norace
func simTimerKnown(key unsafe.Pointer) (ch chan time.Time, fn func(), period int64, ok bool) {
	for i := 0; i < nTimers; i++ {
		if timers[i].key == key {
			return timers[i].ch, timers[i].fn, timers[i].period, true
		}
	}
	return nil, nil, 0, false
}

func TimerStop(t *time.Timer) bool {
	if isActive() && stopTimerKey(unsafe.Pointer(t)) {
		return true
	}
	if isActive() {
		return false // simulated timer already fired or stopped (the real one is a stopped dummy)
	}
	return t.Stop()
}

func TimerReset(t *time.Timer, d time.Duration) bool {
	if !isActive() {
		return t.Reset(d)
	}
	ch, fn, _, was := simTimerKnown(unsafe.Pointer(t))
	stopTimerKey(unsafe.Pointer(t))
	if !was {
		// fired or stopped before: re-arm with the channel the library holds
		if c, ok := chanOf(t.C); ok {
			ch = c
		}
		fn = afterFuncs(unsafe.Pointer(t))
	}
	var hb unsafe.Pointer
	if fn != nil {
		hb = armEdge()
	}
	addTimer(d, 0, ch, fn, unsafe.Pointer(t), hb)
	if fn != nil {
		rememberAfterFunc(unsafe.Pointer(t), fn)
	}
	return was
}

func TickerStop(t *time.Ticker) {
	if isActive() {
		stopTimerKey(unsafe.Pointer(t))
		return
	}
	t.Stop()
}

func TickerReset(t *time.Ticker, d time.Duration) {
	if !isActive() {
		t.Reset(d)
		return
	}
	stopTimerKey(unsafe.Pointer(t))
	if c, ok := chanOf(t.C); ok {
		addTimer(d, d, c, nil, unsafe.Pointer(t), nil)
	}
}

// chanOf recovers the bidirectional channel behind a receive-only view (the simulator
// created it, so the conversion is sound).
func chanOf(c <-chan time.Time) (chan time.Time, bool) {
	if c == nil {
		return nil, false
	}
	return *(*chan time.Time)(unsafe.Pointer(&c)), true
}

// AfterFunc functions are remembered so that Reset after firing can re-arm them.
type afEntry struct {
	key unsafe.Pointer
	fn  func()
}

var (
	afs  [tableCap]afEntry
	nAfs int
)

//go:norace
func rememberAfterFunc(key unsafe.Pointer, fn func()) {
	for i := 0; i < nAfs; i++ {
		if afs[i].key == key {
			afs[i].fn = fn
			return
		}
	}
	if nAfs < tableCap {
		afs[nAfs] = afEntry{key, fn}
		nAfs++
	}
}

//go:norace
func afterFuncs(key unsafe.Pointer) func() {
	for i := 0; i < nAfs; i++ {
		if afs[i].key == key {
			return afs[i].fn
		}
	}
	return nil
}
