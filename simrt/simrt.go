// Package simrt is the deterministic simulator runtime that the instrumented copy of
// the library under test is linked against (as <module>/zz_simrt).
//
// Model: a run has 1..MaxTasks caller goroutines ("tasks"). Exactly one of them executes
// at any time; all others spin in waitTurn() on a plain (non-atomic) word. The word is
// read and written only inside //go:norace functions, so the race detector sees NO
// synchronisation between tasks: two tasks that touch the same library memory are
// reported even though the simulator strictly serialises them. Which task runs, and for
// how many yields, is decided only by the policy and its PRNG (or by a script on replay).
//
// Every piece of simulator state is touched exclusively from //go:norace functions.
package simrt

import (
	"math"
	"runtime"
	"unsafe"
)

// MaxTasks bounds caller tasks plus goroutines spawned by the library during a run.
const MaxTasks = 4096

// MaxCallers is the largest number of caller tasks a run may start with.
const MaxCallers = 64

const hotWindow = 6

// a call of the bounded corpus takes at most a few hundred thousand yields
const (
	spinCap   = 3_000_000
	spinEvery = 50_000
)

// maxSelCases bounds the channels one task can wait on at once (cases of a select).
const maxSelCases = 16

// site kinds
const (
	KPlain  = 0
	KAPI    = 1
	KShared = 2
	KBound  = 3 // boundary after an operation (OpEnd)
)

// task states
const (
	tIdle uint8 = iota
	tRunnable
	tBlocked
	tStalled
	tDone
)

// policy kinds
const (
	PolSeq = iota
	PolWalk
	PolPCT
	PolHerd
	PolStall
	PolScript
	PolQuantum // time slices: preempt every Quantum yields (and at shared sites with PShared)
	PolNames   = "seq,walk,pct,herd,stall,script,quantum"
)

// event kinds (in the event log and in scripts)
const (
	EvSwitch  = 1 // preemptive switch at a yield inside an op or at an op boundary
	EvBlocked = 2 // task blocked on a modelled primitive, switched away
	EvDone    = 3 // task finished all operations, switched away
	EvGC      = 4 // runtime.GC() x2 executed at this point
	EvUnstall = 5 // stalled task released
	EvStart   = 6 // first task chosen
	EvClock   = 7 // the simulated clock jumped by Arg nanoseconds
)

// Event is one entry of the schedule/fault trace. Trigger = (Task, Op, OpStep); for
// EvSwitch/EvBlocked/EvDone/EvStart Next is the task that ran afterwards.
type Event struct {
	Kind   uint8  `json:"k"`
	Task   int16  `json:"t"`
	Next   int16  `json:"n"`
	Op     int32  `json:"op"`   // operation id inside the run (-1: not in an op)
	OpStep int64  `json:"os"`   // yields executed inside the op so far (-1: boundary after op)
	Site   uint32 `json:"site"` // site id of the yield (0 if none)
	Step   int64  `json:"step"` // global step counter (informational; not used by replay)
	Arg    int64  `json:"arg,omitempty"`
}

// Policy describes how preemption and task choice are decided in one run.
type Policy struct {
	Kind int
	Seed uint64
	// walk / herd / stall: preemption probabilities (as threshold on a 53-bit draw)
	PShared, PAPI, PPlain, PBound float64
	// quantum
	Quantum int64
	// pct
	Depth    int
	EstSteps int64
	// herd: barrier after this many yields of each task's first op (0 = at entry)
	HerdAt int64
	// stall: task and trigger
	StallTask int
	StallOp   int32 // op id
	StallStep int64
	// gc fault: global steps at which GC is forced (sorted)
	GCSteps []int64
	// clock-jump fault: at global step ClockSteps[i] the simulated clock jumps by ClockDeltas[i] ns
	ClockSteps  []int64
	ClockDeltas []int64
	// script (replay)
	Script []Event
	First  int // script: first task (-1 = policy decides)
}

// Result of one run.
type Result struct {
	Steps       int64
	Switches    int64 // preemptive switches (EvSwitch with Next != Task)
	Blocked     int64
	GCs         int64
	Deadlock    bool
	Signature   uint64
	Overlap     bool // >=2 tasks were inside an operation at the same time
	SameKey     bool // >=2 tasks were inside operations of the same family at the same time
	ColdOver    bool // overlap happened while some task was inside its first operation
	InflightGC  bool // a GC fault fired while >=1 other task was parked inside an operation
	PanicOver   bool // set by harness through NotePanic while others were in flight
	Unstalled   bool
	Background  int64 // library goroutines carried over from earlier runs of the process
	Leaked      bool  // a goroutine spawned by the library was still blocked when every caller had returned
	Spawned     int64 // goroutines spawned by the library during the run
	ClockJumps  int64
	TimeSkips   int64 // every task was blocked and simulated time advanced to the next timer
	TimersFired int64
	Events      []Event
	Truncated   bool
	StepsPerOp  []int64 // indexed by op id
}

type task struct {
	state     uint8
	op        int32
	fam       int32
	opStep    int64
	opsDone   int32
	lastOp    int32 // id of the last finished op (-1 none)
	prio      int32
	blockedAt int64
	atBarrier bool
	hot       int8 // yields left in the hot window after a shared site
	child     bool // goroutine spawned by the library (not a caller task)
	// channel wait registration (see chan.go)
	waitKeys [maxSelCases]unsafe.Pointer
	waitDirs [maxSelCases]int8
	nWait    int
	waitFn   func(which int)
	fire     bool
	fireIdx  int
	fired    bool
}

var (
	active   bool
	turn     int32 = -1
	cur      int32 = -1
	ntasks   int32
	tasks    [MaxTasks]task
	steps    int64
	progress int64
	pol      Policy
	rng      uint64
	res      Result
	// derived per-run policy state
	nextPlain   int64
	thrShared   uint64
	thrAPI      uint64
	thrBound    uint64
	pctPoints   []int64
	pctNext     int
	gcNext      int
	clkNext     int
	scriptNext  int
	herdPhase   bool
	stallArmed  bool
	evBuf       = make([]Event, 20000) // preallocated: no append in task context (see locks.go NOTE)
	nEvents     int
	pctBuf      [8]int64
	siteHit     []uint8 // bit0: reached, bit1: preempted at
	sig         uint64
	opSteps     []int64
	livelockCap int64 = 60_000_000
)

//go:norace
func splitmix() uint64 {
	rng += 0x9e3779b97f4a7c15
	z := rng
	z = (z ^ (z >> 30)) * 0xbf58476d1ce4e5b9
	z = (z ^ (z >> 27)) * 0x94d049bb133111eb
	return z ^ (z >> 31)
}

// rngSel is a second stream used for choices that belong to the program's own
// nondeterminism (which ready case a select takes, which of several parked counterparts
// a channel operation meets, the simulated GOMAXPROCS). It is drawn identically under
// every scheduling policy including script replay, so these choices replay.
var rngSel uint64

//go:norace
func selN(n int) int {
	if n <= 1 {
		return 0
	}
	rngSel += 0x9e3779b97f4a7c15
	z := rngSel
	z = (z ^ (z >> 30)) * 0xbf58476d1ce4e5b9
	z = (z ^ (z >> 27)) * 0x94d049bb133111eb
	z ^= z >> 31
	return int(z % uint64(n))
}

//go:norace
func rndN(n int) int {
	if n <= 1 {
		return 0
	}
	return int(splitmix() % uint64(n))
}

//go:norace
func thr(p float64) uint64 {
	if p <= 0 {
		return 0
	}
	if p >= 1 {
		return 1 << 53
	}
	return uint64(p * float64(uint64(1)<<53))
}

//go:norace
func hit(t uint64) bool {
	if t == 0 {
		return false
	}
	return splitmix()>>11 < t
}

// geometric gap with success probability p (>=1)
//
//go:norace
func geom(p float64) int64 {
	if p <= 0 {
		return 1 << 62
	}
	if p >= 1 {
		return 1
	}
	// inverse transform without math.Log dependency problems: use integer loop for
	// large p, log for small p
	u := float64(splitmix()>>11+1) / float64(uint64(1)<<53)
	g := int64(math.Log(u)/math.Log(1-p)) + 1
	if g < 1 {
		g = 1
	}
	return g
}

// RegisterSites sizes the coverage table. Called from the generated zz_sites.go init.
//
//go:norace
func RegisterSites(n int) {
	if n+1 > len(siteHit) {
		nh := make([]uint8, n+1)
		copy(nh, siteHit)
		siteHit = nh
	}
}

// Coverage returns (sites reached, sites preempted at, total).
//
//go:norace
func Coverage() (reached, preempted, total int) {
	for _, b := range siteHit {
		if b&1 != 0 {
			reached++
		}
		if b&2 != 0 {
			preempted++
		}
	}
	total = len(siteHit) - 1
	if total < 0 {
		total = 0
	}
	return
}

// SiteBits returns a copy of the coverage table (index = site id).
//
//go:norace
func SiteBits() []uint8 {
	c := make([]uint8, len(siteHit))
	copy(c, siteHit)
	return c
}

// Y is spliced in front of every plain statement of the instrumented library.
//
//go:norace
func Y(site uint32) {
	if !active {
		return
	}
	yslow(site, KPlain)
}

// YA: first statement and every return of an exported function.
//
//go:norace
func YA(site uint32) {
	if !active {
		return
	}
	yslow(site, KAPI)
}

// YS: statement that mentions package-level state or sync/atomic.
//
//go:norace
func YS(site uint32) {
	if !active {
		return
	}
	yslow(site, KShared)
}

//go:norace
func fold(a, b, c, d uint64) {
	h := sig
	h = (h ^ a) * 0x100000001b3
	h = (h ^ b) * 0x100000001b3
	h = (h ^ c) * 0x100000001b3
	h = (h ^ d) * 0x100000001b3
	sig = h
}

//go:norace
func logEvent(kind uint8, t, next int32, site uint32) {
	tk := &tasks[t]
	fold(uint64(kind)<<32|uint64(uint16(t))<<16|uint64(uint16(next)), uint64(uint32(tk.op)), uint64(tk.opStep), uint64(site))
	if nEvents < len(evBuf) {
		evBuf[nEvents] = Event{Kind: kind, Task: int16(t), Next: int16(next), Op: tk.op, OpStep: tk.opStep, Site: site, Step: steps}
		nEvents++
	} else {
		res.Truncated = true
	}
}

//go:norace
func yslow(site uint32, kind int) {
	steps++
	progress++
	graceUsed = false
	t := &tasks[cur]
	t.opStep++
	if int(site) < len(siteHit) {
		siteHit[site] |= 1
	}
	// hot window: the few statements after one that touched shared state / sync are
	// treated like shared sites (check-then-act windows, code right after Unlock)
	if kind == KShared {
		t.hot = hotWindow
	} else if t.hot > 0 {
		t.hot--
		if kind == KPlain {
			kind = KShared
		}
	}
	lastSites[steps&63] = site
	if steps > livelockCap {
		LivelockSites = lastSites
		// a library loop that never terminates under simulation: hand back to main
		res.Deadlock = true
		active = false
		turn = -1
		for {
			runtime.Gosched()
		}
	}
	// faults first: GC at a chosen global step
	if pol.Kind != PolScript {
		for gcNext < len(pol.GCSteps) && steps >= pol.GCSteps[gcNext] {
			gcNext++
			doGC(site)
		}
		for clkNext < len(pol.ClockSteps) && steps >= pol.ClockSteps[clkNext] {
			doClock(site, pol.ClockDeltas[clkNext])
			clkNext++
		}
	}
	if nTimers > 0 {
		if now, _ := simNow(); now >= nextTimer {
			fireDue()
		}
	}
	preempt := false
	switch pol.Kind {
	case PolSeq:
		// never inside an op
	case PolWalk:
		preempt = walkDecide(kind)
	case PolPCT:
		if pctNext < len(pctPoints) && steps >= pctPoints[pctNext] {
			// priority change point: current task drops below everybody
			t.prio = int32(len(pctPoints) - pctNext - 1)
			pctNext++
			preempt = true
		}
	case PolHerd:
		if herdPhase && !t.atBarrier && t.opsDone == 0 {
			if t.opStep > pol.HerdAt || (pol.HerdAt < 0 && kind == KShared) {
				t.atBarrier = true
				preempt = true
			}
		} else {
			preempt = walkDecide(kind)
		}
	case PolStall:
		if stallArmed && int(cur) == pol.StallTask && t.op == pol.StallOp && t.opStep >= pol.StallStep {
			stallArmed = false
			t.state = tStalled
			preempt = true
		} else {
			preempt = walkDecide(kind)
		}
	case PolQuantum:
		if steps >= nextPlain {
			nextPlain = steps + pol.Quantum
			preempt = true
		} else if kind == KShared {
			preempt = hit(thrShared)
		}
	case PolScript:
		scriptAt(site, EvSwitch)
		return
	}
	if !preempt && t.opStep > spinCap && t.opStep%spinEvery == 0 {
		// far beyond the length of any corpus call: the task is probably polling for
		// something another task has to do; no policy may starve the others for ever
		preempt = true
		demote()
	}
	if preempt {
		switchAway(site, EvSwitch)
	}
}

// demote: under PCT a task that yields voluntarily (or polls) drops below everybody else,
// otherwise it would be chosen again at once.
//
//go:norace
func demote() {
	if pol.Kind != PolPCT {
		return
	}
	low := tasks[cur].prio
	for i := int32(0); i < ntasks; i++ {
		if tasks[i].state != tDone && tasks[i].prio < low {
			low = tasks[i].prio
		}
	}
	tasks[cur].prio = low - 1
}

//go:norace
func walkDecide(kind int) bool {
	switch kind {
	case KShared:
		return hit(thrShared)
	case KAPI:
		return hit(thrAPI)
	case KBound:
		return hit(thrBound)
	}
	if steps >= nextPlain {
		nextPlain = steps + geom(pol.PPlain)
		return true
	}
	return false
}

//go:norace
func doClock(site uint32, delta int64) {
	res.ClockJumps++
	clockOffset += delta
	logEvent(EvClock, cur, cur, site)
	if nEvents > 0 && nEvents <= len(evBuf) {
		evBuf[nEvents-1].Arg = delta
	}
}

//go:norace
func doGC(site uint32) {
	res.GCs++
	for i := int32(0); i < ntasks; i++ {
		if i != cur && tasks[i].op >= 0 && tasks[i].state != tDone {
			res.InflightGC = true
		}
	}
	logEvent(EvGC, cur, cur, site)
	runtime.GC()
	runtime.GC()
}

// candidates other than blocked-without-progress, done, stalled
//
//go:norace
func eligible(i int32) bool {
	switch tasks[i].state {
	case tRunnable:
		return true
	case tBlocked:
		return tasks[i].blockedAt != progress
	}
	return false
}

//go:norace
func noteOverlap() {
	n := 0
	cold := false
	for i := int32(0); i < ntasks; i++ {
		if tasks[i].op >= 0 && tasks[i].state != tDone && !tasks[i].child {
			n++
			if tasks[i].opsDone == 0 {
				cold = true
			}
			for j := i + 1; j < ntasks; j++ {
				if tasks[j].op >= 0 && tasks[j].state != tDone && !tasks[j].child && tasks[j].fam == tasks[i].fam {
					res.SameKey = true
				}
			}
		}
	}
	if n >= 2 {
		res.Overlap = true
		if cold {
			res.ColdOver = true
		}
	}
}

// InFlightOthers reports how many other tasks are parked inside an operation.
//
//go:norace
func InFlightOthers() int {
	if !active {
		return 0
	}
	n := 0
	for i := int32(0); i < ntasks; i++ {
		if i != cur && tasks[i].op >= 0 && tasks[i].state != tDone {
			n++
		}
	}
	return n
}

// pick the next task according to the policy; -1 if none.
//
//go:norace
func pickNext(forced bool) int32 {
	var cand [MaxTasks]int32
	n := 0
	for i := int32(0); i < ntasks; i++ {
		if eligible(i) {
			cand[n] = i
			n++
		}
	}
	if n == 0 {
		// a stalled task is released before simulated time is allowed to pass (a periodic
		// timer would otherwise keep the others busy for ever while the stalled task holds
		// what they wait for)
		for i := int32(0); i < ntasks; i++ {
			if tasks[i].state == tStalled {
				tasks[i].state = tRunnable
				res.Unstalled = true
				logEvent(EvUnstall, i, i, 0)
				return i
			}
		}
	}
	if n == 0 && !callersDone() && advanceToNextTimer() {
		// a caller is still waiting, everybody is blocked, a timer is pending: simulated
		// time passes. (Once every caller has returned the run is over: periodic background
		// work of the library would otherwise keep it alive for ever.)
		fireDue()
		for i := int32(0); i < ntasks; i++ {
			if eligible(i) {
				cand[n] = i
				n++
			}
		}
	}
	if n == 0 {
		// release a stalled task if that is all that is left
		for i := int32(0); i < ntasks; i++ {
			if tasks[i].state == tStalled {
				tasks[i].state = tRunnable
				res.Unstalled = true
				logEvent(EvUnstall, i, i, 0)
				return i
			}
		}
		return -1
	}
	switch pol.Kind {
	case PolPCT:
		best := cand[0]
		for k := 1; k < n; k++ {
			if tasks[cand[k]].prio > tasks[best].prio {
				best = cand[k]
			}
		}
		return best
	case PolHerd:
		if herdPhase {
			// first everybody who has not reached the barrier yet, in id order
			for k := 0; k < n; k++ {
				if !tasks[cand[k]].atBarrier && tasks[cand[k]].opsDone == 0 {
					return cand[k]
				}
			}
			herdPhase = false
		}
	}
	// prefer a task other than the current one when preempting
	if n > 1 && cur >= 0 {
		m := 0
		var oth [MaxTasks]int32
		for k := 0; k < n; k++ {
			if cand[k] != cur {
				oth[m] = cand[k]
				m++
			}
		}
		return oth[rndN(m)]
	}
	return cand[rndN(n)]
}

//go:norace
func waitTurn(me int32) {
	for turn != me {
		if me >= 0 && tasks[me].fire {
			// a counterpart matched this task's pending channel operation: perform it now
			// (the counterpart is blocked for real in the matching operation); the task
			// itself stays parked
			t := &tasks[me]
			t.fire = false
			f := t.waitFn
			t.waitFn = nil
			t.nWait = 0
			f(t.fireIdx)
			t.fired = true
		}
		runtime.Gosched()
	}
}

//go:norace
func handoff(next int32) {
	me := cur
	if next == me {
		return
	}
	cur = next
	turn = next
	waitTurn(me)
}

// switchAway: the current task gives up the processor (kind: EvSwitch, EvBlocked).
//
//go:norace
func switchAway(site uint32, kind uint8) {
	me := cur
	next := pickNext(kind != EvSwitch)
	if next < 0 && kind != EvSwitch && lastChance() {
		next = pickNext(true)
	}
	if next < 0 {
		if kind == EvSwitch {
			return // nobody else: keep running
		}
		// blocked with nobody to make progress: deadlock - unless only goroutines spawned
		// by the library are left (a leaked goroutine is not a caller that never returns)
		if callersDone() {
			// only library goroutines are left and all of them wait: the run is over, the
			// goroutine stays parked and takes part in the next run of this process
			res.Leaked = true
			finishRun()
			waitTurn(me)
			return
		}
		deadlockExit()
		return
	}
	if next != me {
		if kind == EvSwitch {
			res.Switches++
			if int(site) < len(siteHit) {
				siteHit[site] |= 2
			}
		}
		logEvent(kind, me, next, site)
		if tasks[me].op >= 0 {
			noteOverlapWith(next)
			if SwitchHook != nil && !tasks[me].child {
				SwitchHook(int(me))
			}
		}
		handoff(next)
	} else if kind == EvBlocked {
		// only candidate is myself and I am blocked without progress -> handled by eligible()
		logEvent(kind, me, next, site)
	}
}

//go:norace
func noteOverlapWith(next int32) {
	_ = next
	noteOverlap()
}

// lastChance: before a deadlock is declared every blocked task gets one more attempt
// (guards the verdict against a state change that happened without the progress counter
// being bumped). It is re-armed by every executed yield.
//
//go:norace
func lastChance() bool {
	if graceUsed {
		return false
	}
	graceUsed = true
	progress++
	return true
}

var graceUsed bool

//go:norace
func callersDone() bool {
	for i := int32(0); i < ntasks; i++ {
		if !tasks[i].child && tasks[i].state != tDone {
			return false
		}
	}
	return true
}

//go:norace
func deadlockExit() {
	res.Deadlock = true
	active = false
	cur = -1
	turn = -1
	// this goroutine can never continue
	for {
		runtime.Gosched()
	}
}

// blocked is called by the lock wrappers when a try-acquire failed.
//
//go:norace
func blocked() {
	t := &tasks[cur]
	t.state = tBlocked
	t.blockedAt = progress
	res.Blocked++
	if pol.Kind == PolScript {
		scriptAt(0, EvBlocked)
	} else {
		switchAway(0, EvBlocked)
	}
	tasks[cur].state = tRunnable
}

// ---- script (replay) policy ----

const inf = int64(1) << 62

// opBackground is the operation id of a library goroutine that outlived the run that
// started it.
const opBackground = -3

// position of a task / of an event trigger as a comparable pair
//
//go:norace
func evPos(op int32, opStep int64) (int64, int64) {
	if op == -2 {
		return inf, 0
	}
	if op == opBackground {
		return -3, opStep
	}
	if opStep < 0 {
		return int64(op), inf
	}
	return int64(op), opStep
}

//go:norace
func taskPos(i int32) (int64, int64) {
	t := &tasks[i]
	if t.state == tDone || t.op == -2 {
		return inf, 0
	}
	if t.op == opBackground {
		return -3, t.opStep
	}
	if t.op == -1 {
		return int64(t.lastOp), inf
	}
	return evPos(t.op, t.opStep)
}

// stale: the trigger of ev lies strictly before the current position of its task, so it
// can never fire any more (happens in minimised scripts).
//
//go:norace
func stale(ev *Event) bool {
	j := int32(ev.Task)
	if j < 0 || j >= ntasks {
		return true
	}
	if tasks[j].state == tDone {
		return ev.Kind != EvDone || j != cur
	}
	ea, eb := evPos(ev.Op, ev.OpStep)
	ta, tb := taskPos(j)
	if ea != ta {
		return ea < ta
	}
	return eb < tb
}

// scriptAt consumes every script event whose trigger matches the current position.
// kind is what is happening now: EvSwitch (a yield / op boundary), EvBlocked, EvDone.
//
//go:norace
func scriptAt(site uint32, kind uint8) {
	me := cur
	t := &tasks[me]
	for scriptNext < len(pol.Script) {
		ev := &pol.Script[scriptNext]
		if stale(ev) {
			scriptNext++
			continue
		}
		if int32(ev.Task) != me || ev.Op != t.op || ev.OpStep != t.opStep {
			break
		}
		if ev.Kind == EvGC || ev.Kind == EvClock {
			if kind == EvBlocked {
				scriptNext++ // its yield has passed
				continue
			}
			scriptNext++
			if ev.Kind == EvGC {
				doGC(site)
			} else {
				doClock(site, ev.Arg)
			}
			continue
		}
		if ev.Kind != kind {
			if kind == EvBlocked && ev.Kind == EvSwitch {
				scriptNext++ // the yield at this position has passed
				continue
			}
			break
		}
		scriptNext++
		next := int32(ev.Next)
		if next < 0 || next >= ntasks || !eligible(next) || next == me {
			next = lowestEligible(me)
		}
		scriptSwitch(site, kind, next)
		return
	}
	if kind != EvSwitch {
		// forced switch without a script entry
		scriptSwitch(site, kind, lowestEligible(me))
	}
}

//go:norace
func lowestEligible(me int32) int32 {
	for i := int32(0); i < ntasks; i++ {
		if i != me && eligible(i) {
			return i
		}
	}
	for i := int32(0); i < ntasks; i++ {
		if tasks[i].state == tStalled {
			tasks[i].state = tRunnable
			return i
		}
	}
	if !(me >= 0 && eligible(me)) && !callersDone() && advanceToNextTimer() {
		// everybody is blocked but a timer is pending: simulated time passes
		fireDue()
		for i := int32(0); i < ntasks; i++ {
			if eligible(i) {
				return i
			}
		}
	}
	if me >= 0 && eligible(me) {
		return me
	}
	return -1
}

//go:norace
func scriptSwitch(site uint32, kind uint8, next int32) {
	me := cur
	if kind == EvDone {
		afterDone(me, next)
		return
	}
	if next < 0 && kind != EvSwitch && lastChance() {
		next = lowestEligible(me)
	}
	if next < 0 {
		if kind == EvSwitch {
			return
		}
		if callersDone() {
			res.Leaked = true
			finishRun()
			waitTurn(me)
			return
		}
		deadlockExit()
		return
	}
	if next == me {
		return
	}
	if kind == EvSwitch {
		res.Switches++
		if int(site) < len(siteHit) {
			siteHit[site] |= 2
		}
	}
	logEvent(kind, me, next, site)
	if tasks[me].op >= 0 {
		noteOverlap()
		if SwitchHook != nil && !tasks[me].child {
			SwitchHook(int(me))
		}
	}
	handoff(next)
}

// afterDone: task id has finished; pass the processor to next (or end the run).
//
//go:norace
func afterDone(id, next int32) {
	if next < 0 && !callersDone() && lastChance() {
		next = pickNextAny()
	}
	if next < 0 {
		logEvent(EvDone, id, -1, 0)
		for i := int32(0); i < ntasks; i++ {
			if tasks[i].state != tDone {
				if tasks[i].child {
					res.Leaked = true // a library goroutine is blocked forever: a leak, not a caller that hangs
				} else {
					res.Deadlock = true // others exist but all are blocked without progress
				}
			}
		}
		finishRun()
		return
	}
	logEvent(EvDone, id, next, 0)
	cur = next
	turn = next
}

//go:norace
func pickNextAny() int32 {
	if pol.Kind == PolScript {
		return lowestEligible(cur)
	}
	return pickNext(true)
}

//go:norace
func finishRun() {
	active = false
	cur = -1
	turn = -1
}

// ---- operations API used by the harness inside task bodies ----

// OpBegin marks the start of operation id (unique in the run) of family fam.
//
//go:norace
func OpBegin(id, fam int32) {
	if !active {
		return
	}
	t := &tasks[cur]
	t.op = id
	t.fam = fam
	t.opStep = 0
	fold(0xbe, uint64(cur), uint64(uint32(id)), uint64(steps))
	noteOverlap()
}

// OpEnd marks the end of the current operation; it is a preemption point (boundary).
//
//go:norace
func OpEnd(outcome uint64) {
	if !active {
		return
	}
	t := &tasks[cur]
	if int(t.op) < len(opSteps) && t.op >= 0 {
		opSteps[t.op] = t.opStep
	}
	fold(0xed, uint64(cur), uint64(uint32(t.op)), outcome)
	progress++
	clockOffset += 1_000_000 // every finished call also costs one simulated millisecond
	t.opStep = -1
	me := cur
	switch pol.Kind {
	case PolScript:
		scriptAt(0, EvSwitch)
	case PolPCT:
		// boundaries are not change points
	case PolSeq:
		if hit(thrBound) {
			switchAway(0, EvSwitch)
		}
	default:
		if walkDecide(KBound) {
			switchAway(0, EvSwitch)
		}
	}
	t = &tasks[me]
	t.lastOp = t.op
	t.op = -1
	t.opStep = 0
	t.opsDone++
}

// NotePanic is called by the harness when an operation panicked (and was recovered).
//
//go:norace
func NotePanic() {
	if !active {
		return
	}
	if InFlightOthers() > 0 {
		res.PanicOver = true
	}
}

// SwitchHook, if set, is called on the task's own goroutine whenever a caller task is
// switched away from in the middle of an operation (the harness uses it to look at the
// task's argument slice while the call is in flight).
var SwitchHook func(task int)

// Fault reports a condition the simulator cannot handle (the run must be discarded and
// the check must end as a machinery problem, never as a verdict).
//
// YV is a yield point inside an expression: the value is computed, then the task may be
// preempted, then the value is used.
//
//go:norace
func YV[T any](id uint32, v T) T {
	YS(id)
	return v
}

func Fault() string { return simFault }

// ClearFault forgets a table overflow (the harness has dealt with it).
//
//go:norace
func ClearFault() { simFault = "" }

var simFault string

// the last 64 yield sites (diagnosis of a run that exceeded the step cap)
var lastSites, LivelockSites [64]uint32

// simProcs is the value runtime.GOMAXPROCS(0) / runtime.NumCPU() have for the library in
// this run (a per-run configuration knob: code that switches strategy on the number of
// processors must be correct for every value).
var simProcs = 1

// CurTask returns the running task id, -1 outside a run.
//
//go:norace
func CurTask() int {
	if !active {
		return -1
	}
	return int(cur)
}

// Steps returns the global step counter of the current (or last) run.
//
//go:norace
func Steps() int64 { return steps }

//go:norace
func taskMain(id int32, body func(id int)) {
	waitTurn(id)
	body(int(id))
	taskDone(id)
}

//go:norace
func taskDone(id int32) {
	t := &tasks[id]
	t.state = tDone
	t.op = -2
	t.opStep = 0
	progress++
	if pol.Kind == PolScript {
		scriptAt(0, EvDone)
		return
	}
	afterDone(id, pickNext(true))
}

//go:norace
func setup(n int, p Policy, nops int) {
	// caller tasks occupy slots [0, MaxCallers); goroutines started by the library live in
	// the slots above and PERSIST from run to run (a janitor goroutine belongs to the
	// process, not to the call that happened to start it)
	if ntasks < MaxCallers {
		ntasks = MaxCallers
	}
	pol = p
	rng = p.Seed
	rngSel = p.Seed ^ 0x5e1ec7c0ffee
	simProcs = []int{1, 2, 4, 8, 16}[selN(5)]
	steps = 0
	progress = 0
	sig = 0xcbf29ce484222325
	res = Result{}
	nEvents = 0
	if cap(opSteps) < nops {
		opSteps = make([]int64, nops)
	}
	opSteps = opSteps[:nops]
	for i := range opSteps {
		opSteps[i] = 0
	}
	for i := 0; i < MaxCallers; i++ {
		if i < n {
			tasks[i] = task{state: tRunnable, op: -1, lastOp: -1}
		} else {
			tasks[i] = task{state: tDone, op: -2, lastOp: -1}
		}
	}
	for i := int32(MaxCallers); i < ntasks; i++ {
		if tasks[i].state != tDone {
			// a background goroutine of the library carried over from an earlier run
			tasks[i].op, tasks[i].opStep, tasks[i].lastOp = opBackground, 0, -1
			res.Background++
		}
	}
	thrShared, thrAPI, thrBound = thr(p.PShared), thr(p.PAPI), thr(p.PBound)
	nextPlain = 1 << 62
	gcNext, scriptNext, pctNext, clkNext = 0, 0, 0, 0
	herdPhase, stallArmed = false, false
	pctPoints = pctBuf[:0]
	switch p.Kind {
	case PolWalk:
		nextPlain = geom(p.PPlain)
	case PolQuantum:
		if pol.Quantum < 1 {
			pol.Quantum = 1
		}
		nextPlain = 1 + int64(splitmix()%uint64(pol.Quantum))
	case PolHerd:
		herdPhase = true
		nextPlain = geom(p.PPlain)
	case PolStall:
		stallArmed = true
		nextPlain = geom(p.PPlain)
	case PolPCT:
		// random distinct priorities d+1..d+n, d change points over the estimated length
		perm := make([]int32, n)
		for i := range perm {
			perm[i] = int32(i)
		}
		for i := n - 1; i > 0; i-- {
			j := rndN(i + 1)
			perm[i], perm[j] = perm[j], perm[i]
		}
		for i := 0; i < n; i++ {
			tasks[perm[i]].prio = int32(p.Depth + 1 + i)
		}
		est := p.EstSteps
		if est < 2 {
			est = 2
		}
		for i := 0; i < p.Depth && i < len(pctBuf); i++ {
			pctPoints = pctBuf[:i+1]
			pctPoints[i] = 1 + int64(splitmix()%uint64(est))
		}
		// sort ascending (tiny)
		for i := 1; i < len(pctPoints); i++ {
			for j := i; j > 0 && pctPoints[j] < pctPoints[j-1]; j-- {
				pctPoints[j], pctPoints[j-1] = pctPoints[j-1], pctPoints[j]
			}
		}
	}
}

//go:norace
func firstTask() int32 {
	if pol.Kind == PolScript {
		if pol.First >= 0 && int32(pol.First) < ntasks {
			return int32(pol.First)
		}
		return 0
	}
	return pickNext(true)
}

//go:norace
func begin(first int32) {
	logEvent(EvStart, first, first, 0)
	active = true
	cur = first
	turn = first
	waitTurn(-1)
	active = false
}

//go:norace
func collect() Result {
	clockBase += steps * 1000
	r := res
	r.TimersFired = timerFired
	timerFired = 0
	r.Steps = steps
	r.Signature = sig
	r.Events = make([]Event, nEvents)
	for i := 0; i < nEvents; i++ {
		r.Events[i] = evBuf[i]
	}
	r.StepsPerOp = make([]int64, len(opSteps))
	for i := range opSteps {
		r.StepsPerOp[i] = opSteps[i]
	}
	return r
}

// Run executes n task bodies under policy p. nops is the number of operation ids used.
// It returns when every task has finished, or on deadlock (in which case the unfinished
// task goroutines are left parked forever and the process should report and exit).
func Run(n int, nops int, p Policy, body func(id int)) Result {
	if n < 1 || n > MaxCallers {
		panic("simrt: bad task count")
	}
	setup(n, p, nops)
	for i := 0; i < n; i++ {
		go taskMain(int32(i), body)
	}
	begin(firstTask())
	return collect()
}
