// Package proto holds the data exchanged between the driver and the harness processes
// and stored in replay files.
package proto

// Function names of the API surface under test.
const (
	FnSatisfies     = "Satisfies"
	FnValidate      = "ValidateLicenses"
	FnExtract       = "ExtractLicenses"
	FnGetLicenses   = "GetLicenses"
	FnGetDeprecated = "GetDeprecated"
	FnGetExceptions = "GetExceptions"
	FnLicenseRanges = "LicenseRanges"
)

// Call is one call signature (function + literal arguments).
type Call struct {
	ID      int      `json:"id"`
	Fn      string   `json:"fn"`
	Expr    string   `json:"expr,omitempty"`
	List    []string `json:"list,omitempty"`
	NilList bool     `json:"nil_list,omitempty"`
	Fam     int      `json:"fam"`
	Tag     string   `json:"tag,omitempty"`
}

// Corpus is the per-check set of call signatures, generated from the seed and the tree's
// own tables.
type Corpus struct {
	Seed  uint64 `json:"seed"`
	Calls []Call `json:"calls"`
}

// Expected is the sequential reference: outcome per call id (and its length in yields).
type Expected struct {
	Outcome []string `json:"outcome"`
	Steps   []int64  `json:"steps"`
}

// OracleOut is what one oracle process observed, in execution order.
// StepsBeyondSimulator marks a call of the instrumented pass that overflowed one of the
// simulator's fixed tables (more than 4096 live goroutines, 1024 timers, ...): its outcome
// is not compared and simulated runs do not use it.
const StepsBeyondSimulator = int64(1) << 60

type OracleOut struct {
	Order     string   `json:"order"`
	IDs       []int    `json:"ids"`
	Outcomes  []string `json:"outcomes"`
	Steps     []int64  `json:"steps,omitempty"`
	Output    int64    `json:"output_bytes"` // bytes written to fd 1/2 during the calls
	ArgMut    []string `json:"arg_mutated,omitempty"`
	Hung      int      `json:"hung"`            // index (in IDs) of a call that never returned, -1 if none
	Crash     string   `json:"crash,omitempty"` // filled by the driver: the oracle process died (Go runtime fatal error in library code)
	CrashAt   int      `json:"crash_at,omitempty"`
	SiteBits  []uint8  `json:"site_bits,omitempty"`            // instrumented pass: yield sites reached
	Unmanaged int      `json:"unmanaged_goroutines,omitempty"` // goroutines the library started outside of calls (init)
}

// Event mirrors simrt.Event.
type Event struct {
	Kind   uint8  `json:"k"`
	Task   int16  `json:"t"`
	Next   int16  `json:"n"`
	Op     int32  `json:"op"`
	OpStep int64  `json:"os"`
	Site   uint32 `json:"site,omitempty"`
	Step   int64  `json:"step,omitempty"`
	Arg    int64  `json:"arg,omitempty"`
}

// Op is one operation of a task in a run.
type Op struct {
	ID          int      `json:"id"`
	Call        int      `json:"call"` // corpus id (-1 if not from the corpus)
	Fn          string   `json:"fn"`
	Expr        string   `json:"expr,omitempty"`
	List        []string `json:"list,omitempty"`
	NilList     bool     `json:"nil_list,omitempty"`
	Share       int      `json:"share"` // >=0: shared backing-array group; -1: private
	Spare       int      `json:"spare,omitempty"`
	ScribbleArg bool     `json:"scribble_arg,omitempty"`
	ScribbleRes bool     `json:"scribble_res,omitempty"`
	ReuseBuf    bool     `json:"reuse_buf,omitempty"` // pass the same slice object as the task's previous private argument, refilled
	Fam         int      `json:"fam"`
	Expect      string   `json:"expect"`
}

type TaskRec struct {
	Ops []Op `json:"ops"`
}

// PolicyRec describes a seeded policy (used for prefix runs and informational on the
// failing run, whose schedule is given explicitly by Events).
type PolicyRec struct {
	Kind        string  `json:"kind"`
	Seed        uint64  `json:"seed"`
	PShared     float64 `json:"p_shared,omitempty"`
	PAPI        float64 `json:"p_api,omitempty"`
	PPlain      float64 `json:"p_plain,omitempty"`
	PBound      float64 `json:"p_bound,omitempty"`
	Depth       int     `json:"depth,omitempty"`
	Quantum     int64   `json:"quantum,omitempty"`
	EstSteps    int64   `json:"est_steps,omitempty"`
	HerdAt      int64   `json:"herd_at,omitempty"`
	StallTask   int     `json:"stall_task,omitempty"`
	StallOp     int32   `json:"stall_op,omitempty"`
	StallStep   int64   `json:"stall_step,omitempty"`
	GCSteps     []int64 `json:"gc_steps,omitempty"`
	ClockSteps  []int64 `json:"clock_steps,omitempty"`
	ClockDeltas []int64 `json:"clock_deltas_ns,omitempty"`
}

// RunRec is one simulated run: workload + how it is scheduled.
type RunRec struct {
	Index    int       `json:"index"`
	Cold     bool      `json:"cold"`
	Tasks    []TaskRec `json:"tasks"`
	Policy   PolicyRec `json:"policy"`
	Scripted bool      `json:"scripted"` // true: Events is the schedule; false: Policy decides
	First    int       `json:"first"`
	Events   []Event   `json:"events,omitempty"`
}

// Violation as observed by the harness.
type Violation struct {
	Class    string   `json:"class"`
	Task     int      `json:"task"`
	Op       int      `json:"op"`
	Fn       string   `json:"fn,omitempty"`
	Detail   string   `json:"detail"`
	Expected string   `json:"expected,omitempty"`
	Observed string   `json:"observed,omitempty"`
	Frames   []string `json:"frames,omitempty"` // data_race: top library frames of both accesses
	RaceLog  string   `json:"race_log,omitempty"`
}

// Record is a replay file.
type Record struct {
	Property   string      `json:"property"`
	Class      string      `json:"class"`
	Build      string      `json:"build"` // race | plain
	Seed       uint64      `json:"seed"`
	Proc       int         `json:"proc"`
	ReplayMode string      `json:"replay"` // exact | probabilistic
	Prefix     []RunRec    `json:"prefix,omitempty"`
	Run        RunRec      `json:"run"`
	Violations []Violation `json:"violations"`
	Note       string      `json:"note,omitempty"`
	Trace      []string    `json:"trace,omitempty"` // human-readable rendering of Run (informational; replay uses Run)
}

// ProcResult is what one sim / replay process reports.
type ProcResult struct {
	Seed        uint64         `json:"seed"`
	Proc        int            `json:"proc"`
	Build       string         `json:"build"`
	Mode        string         `json:"mode"`
	Runs        int            `json:"runs"`
	Ops         int64          `json:"ops"`
	Steps       int64          `json:"steps"`
	Switches    int64          `json:"switches"`
	PolicyRuns  map[string]int `json:"policy_runs"`
	Faults      map[string]int `json:"faults"`
	Probes      map[string]int `json:"probes"`
	TasksHist   []int          `json:"tasks_hist"`
	SigAll      uint64         `json:"sig_all"`
	RunSigs     []uint64       `json:"run_sigs,omitempty"` // only when asked
	NonTrivial  []uint64       `json:"nontrivial_sigs"`
	SiteBits    []uint8        `json:"site_bits,omitempty"`
	NumSites    int            `json:"num_sites"`
	Instrument  bool           `json:"instrumented"`
	WallMs      int64          `json:"wall_ms"`
	Record      *Record        `json:"record,omitempty"`
	Samples     []RunRec       `json:"samples,omitempty"`
	Error       string         `json:"error,omitempty"` // machinery problem
	CallsUsed   int            `json:"calls_used"`
	UsedCalls   []int32        `json:"used_calls,omitempty"` // corpus ids that occurred in this process's runs
	OutputBytes int64          `json:"output_bytes"`
}
